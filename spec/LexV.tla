-------------------------------- MODULE LexV --------------------------------
(* V direction: observations of the real lexer / strip_ignored_characters /   *)
(* token limit on larger sources, evaluated against Lexical.tla.               *)
(* record: [s: code points, ok: BOOLEAN, at: error offset or length,           *)
(*          toks: real tokens [kind,start,end,value], strip: code points | <<EOFc>>] *)
EXTENDS Lexical, IOUtils
Cases == JsonDeserialize(IOEnv.CASES)
VARIABLE i
Init == i \in 1..Len(Cases)
Next == UNCHANGED i
Clause(c) ==
  LET r == Lex(c.s) IN
  IF r.ok # c.ok THEN "accept-diff"
  ELSE IF r.toks # c.toks THEN "token-diff"
  ELSE IF ~SpansOKr(c.s, r) THEN "spans"
  ELSE IF c.ok /\ c.count # Len(Significant(r.toks)) THEN "token-count"
  ELSE IF c.ok /\ c.strip # <<EOFc>> /\ StripOKr(r, c.strip) # "ok" THEN StripOKr(r, c.strip)
  ELSE IF ~c.ok /\ r.at # c.at THEN "drift-error-offset"
  ELSE "ok"
Check == LET cl == Clause(Cases[i]) IN cl = "ok" \/ PrintT(ToJson([viol |-> i, clause |-> cl, spec |-> Lex(Cases[i].s)]))
=============================================================================
