----------------------------- MODULE PipelineV -----------------------------
EXTENDS Pipeline, Json, IOUtils
Cases == JsonDeserialize(IOEnv.CASES)
VARIABLE i
VInit == i \in 1..Len(Cases) /\ stage = 1 /\ result = NoResult
VNext == UNCHANGED <<i, stage, result>>
Check == LET cl == Clause(Cases[i]) IN cl = "ok" \/ PrintT(ToJson([viol |-> i, clause |-> cl]))
=============================================================================
