------------------------------ MODULE AsyncExec ------------------------------
(* I-spec of graphql/execution/executor.py for awaitable resolver results:      *)
(* how execute() schedules, awaits, cancels and abandons work.                   *)
(*                                                                               *)
(* The request is the one of Execute.tla.  Asynchrony comes from *gates*: a      *)
(* resolver result (or a list item) is either there at once or an awaitable that *)
(* the environment completes later; which positions are gated is a function of   *)
(* the response path that the harness and this module compute alike (Gate rule). *)
(*                                                                               *)
(* Static part: the position tree of the request - one node per response         *)
(* position (field or list item), with its own local outcome.  It is derived     *)
(* from Execute.tla's operators (CollectFields, CoerceArgumentValues, the type   *)
(* checks of CompleteValue) WITHOUT the short-circuits of synchronous execution, *)
(* because asynchronous execution reaches positions that synchronous execution   *)
(* never starts.                                                                 *)
(* Dynamic part: a status per position and the step Settle(g) = "the environment *)
(* completes gate g, the event loop runs until nothing can move".  The rules     *)
(* are the code's:                                                               *)
(*   execute_fields          starts its fields in order; an awaitable field is   *)
(*                           left pending, a synchronous one is completed now;   *)
(*                           a synchronous failure of a non-null field stops the *)
(*                           loop (later fields are never started) and leaves    *)
(*                           the awaitables collected so far to settle in the    *)
(*                           background (orphans: nobody awaits them any more)   *)
(*   get_results             awaits the pending fields with gather_with_cancel:  *)
(*                           the first failure cancels the pending siblings      *)
(*                           (recursively, along awaited work only) and fails    *)
(*                           the parent; a nullable position absorbs the failure *)
(*   complete_iterable_value the same for list items; after a synchronous        *)
(*                           failure the remaining awaitable items are drained   *)
(*                           and settled in the background as raw awaitables     *)
(*   execute_fields_serially (mutations) starts root field k+1 only when root    *)
(*                           field k has completed                               *)
(* The response is ready as soon as the root position is final; orphans go on.   *)
(*                                                                               *)
(* Checked (MCAsyncExec.tla): for every request of the batch and EVERY order in   *)
(* which the environment can complete the gates - Confluence (the response is    *)
(* the one Execute.tla prescribes, whatever the order), NoHang, SerialRoots,     *)
(* OnlyOrphansAfterReady.  Bound to the code (V): for every order the harness    *)
(* runs on the real executor, the set of pending gates after every step, the     *)
(* step at which the response becomes available and the response itself are the  *)
(* model's (differences are MODEL-DRIFT; the property verdict is AsyncV.tla's).  *)
EXTENDS Execute

\* ---- the gate rule ------------------------------------------------------------
\* G = [salt, thr, mod, num: [response key -> Nat]]
ElemNum(G, e) == IF "s" \in DOMAIN e THEN G.num[e.s] ELSE e.i + 1
RECURSIVE PathSum(_, _, _)
PathSum(G, p, k) == IF k > Len(p) THEN 0 ELSE (k * 7 + 3) * ElemNum(G, p[k]) + PathSum(G, p, k + 1)
Hash(G, p, salt) == (PathSum(G, p, 1) + salt) % G.mod
ResGated(G, p) == Hash(G, p, G.salt) < G.thr                    \* the resolver at field position p returns an awaitable
ListMode(G, p) == Hash(G, p, G.salt + 5) % 3                    \* of a list produced by a resolver: 0 awaitable items, 1 plain, 2 async iterator
ListAwaitables(G, p) == ListMode(G, p) = 0
ListAsyncIter(G, p) == ListMode(G, p) = 2
StepGated(G, p, k) == Hash(G, Append(p, [i |-> k]), G.salt + 17) < G.thr   \* the k-th __anext__ of the async iterator at p waits for the environment
ItemGated(G, p) == Hash(G, p, G.salt + 11) < G.thr              \* the item at position p is an awaitable

\* ---- the position tree --------------------------------------------------------
\* node: [path, nn, gate, kind, v, kids]
\*   kind: "raise" (resolver raises / argument coercion fails / the item is an exception), "bad" (completion rejects
\*         the value), "null", "leaf", "obj", "list"
Nd(path, nn, gate, kind, v, kids) == [path |-> path, nn |-> nn, gate |-> gate, kind |-> kind, v |-> v, kids |-> kids]

RECURSIVE DefinedKeys(_, _, _, _)
DefinedKeys(R, objType, fl, keys) ==
  IF keys = <<>> THEN <<>>
  ELSE LET g == Group(fl, Head(keys))
           defined == g[1].name = "__typename" \/ g[1].name \in DOMAIN R.schema.types[objType].fields
       IN (IF defined THEN <<Head(keys)>> ELSE <<>>) \o DefinedKeys(R, objType, fl, Tail(keys))

RECURSIVE TreeVal(_, _, _, _, _, _, _, _), TreeField(_, _, _, _, _, _)
\* the nodes at and below `path`, whose (awaited) value is the outcome oc of type ty;
\* top: the value comes straight from a resolver (only such lists carry awaitable items)
TreeVal(R, G, ty, fs, oc, path, gate, top) ==
  LET nn == IsNN(ty)
      t  == IF nn THEN ty[2] ELSE ty
      leafNode(kind, v) == {Nd(path, nn, gate, kind, v, <<>>)}
  IN
  IF oc.t = "err" THEN leafNode("raise", Null)
  ELSE IF oc.t = "null" THEN leafNode("null", Null)
  ELSE IF IsL(t) THEN
       (IF oc.t # "l" THEN leafNode("bad", Null)
        ELSE LET kp == [i \in 1..Len(oc.v) |-> Append(path, [i |-> i - 1])]
                 aw == top /\ ListAwaitables(G, path)
                 ai == top /\ ListAsyncIter(G, path)          \* kind "alist": the value is an async iterator over the items
             IN {Nd(path, nn, gate, IF ai THEN "alist" ELSE "list", Null, kp)} \cup
                UNION {TreeVal(R, G, t[2], fs, oc.v[i], kp[i], aw /\ ItemGated(G, kp[i]), FALSE) : i \in 1..Len(oc.v)})
  ELSE LET S == R.schema kind == S.types[Named(t)].kind IN
       IF kind = "SCALAR" THEN (IF LeafOK(S, Named(t), oc) THEN leafNode("leaf", oc.v) ELSE leafNode("bad", Null))
       ELSE IF oc.t # "o" THEN leafNode("bad", Null)
       ELSE LET rt == oc.type
                okType == /\ rt \in DOMAIN S.types /\ S.types[rt].kind = "OBJECT"
                          /\ ~("reject" \in DOMAIN oc /\ oc.reject)          \* the object type's is_type_of accepts the value
                          /\ (IF kind = "OBJECT" THEN rt = Named(t) ELSE Matches(S, Named(t), rt))
            IN IF ~okType THEN leafNode("bad", Null)
               ELSE LET fl == Collect(R, MergedSel(fs), rt)
                        ks == DefinedKeys(R, rt, fl, Keys(fl, {}))
                        kp == [i \in 1..Len(ks) |-> Append(path, [s |-> ks[i]])]
                    IN {Nd(path, nn, gate, "obj", Null, kp)} \cup
                       UNION {TreeField(R, G, rt, oc, Group(fl, ks[i]), kp[i]) : i \in 1..Len(ks)}

TreeField(R, G, objType, obj, fs, path) ==
  LET name == fs[1].name IN
  IF name = "__typename" THEN {Nd(path, TRUE, FALSE, "leaf", [t |-> "s", v |-> objType], <<>>)}      \* never goes through the field resolver
  ELSE LET fd == R.schema.types[objType].fields[name]
           ca == CoerceArgs(R.schema, fd.args, fs[1], R.vals, R.wd, <<>>)
       IN IF ~ca.ok THEN {Nd(path, IsNN(fd.type), FALSE, "raise", Null, <<>>)}                        \* no resolver call, hence no gate
          ELSE TreeVal(R, G, fd.type, fs, obj.f[name], path, ResGated(G, path), TRUE)

\* R0 = [schema, doc, vars, root, gate]; the root position <<>> is an object whose failure nulls the whole response
TreeOf(R0) ==
  LET cv == CoerceVars(R0.schema, R0.doc.vardefs, R0.vars, <<>>)
      R == [schema |-> R0.schema, doc |-> R0.doc, vals |-> cv.vals, noIncr |-> FALSE,
            wd |-> {R0.doc.vardefs[k].name : k \in {j \in 1..Len(R0.doc.vardefs) : R0.doc.vardefs[j].hasDefault}}]
      rt == R0.schema.query
      fl == Collect(R, R0.doc.sel, rt)
      ks == DefinedKeys(R, rt, fl, Keys(fl, {}))
      kp == [i \in 1..Len(ks) |-> <<[s |-> ks[i]]>>]
      ns == {Nd(<<>>, TRUE, FALSE, "obj", Null, kp)} \cup UNION {TreeField(R, R0.gate, rt, R0.root, Group(fl, ks[i]), kp[i]) : i \in 1..Len(ks)}
  IN [p \in {n.path : n \in ns} |-> CHOOSE n \in ns : n.path = p]

\* ---- statuses -------------------------------------------------------------------
\* idle      not started            wait     its gate is pending, somebody may await it
\* run       awaiting children      val      completed with a value
\* null      completed: legit null  enull    completed: null with an error recorded here
\* fail      raised to the parent   cancelled
\* rawwait   an awaitable item drained from a failed list, settled in the background; rawdone
\* async iterator lists (complete_async_iterator_value is a coroutine):
\* spawn     the coroutine exists but has not run yet (it runs in the same turn, after the synchronous cascade)
\* iter<k>   it awaits the k-th __anext__ (a gate of its own, written path \o <<[n |-> k]>>)
\* latent    a gate below an item that was completed during the iteration: its coroutine is only started when the
\*           iteration ends (gather) or is abandoned (settle_in_background)
IterSt(k) == "iter" \o ToString(k)
MaxIter == 8
IsIter(x) == \E k \in 0..MaxIter : x = IterSt(k)
IterIdx(x) == CHOOSE k \in 0..MaxIter : x = IterSt(k)
Active(x) == x \in {"wait", "run", "spawn", "latent", "lspawn"} \/ IsIter(x)      \* lspawn: a latent async-iterator coroutine
IsPrefixOf(a, b) == Len(a) <= Len(b) /\ SubSeq(b, 1, Len(a)) = a
Final(x) == x \in {"val", "null", "enull", "fail"}
Parent(p) == SubSeq(p, 1, Len(p) - 1)
FailAt(T, S, p) == [S EXCEPT ![p] = IF T[p].nn THEN "fail" ELSE "enull"]
AfterKids(T, S, p) == [S EXCEPT ![p] = IF \E j \in 1..Len(T[p].kids) : Active(S[T[p].kids[j]]) THEN "run" ELSE "val"]

RECURSIVE StartPos(_, _, _), CompleteNow(_, _, _), ExecKids(_, _, _, _), ListItems(_, _, _, _)
StartPos(T, S, p) == IF T[p].gate THEN [S EXCEPT ![p] = "wait"] ELSE CompleteNow(T, S, p)

\* the value of p is there: complete it as far as that is possible without waiting
CompleteNow(T, S, p) ==
  LET n == T[p] IN
  IF n.kind \in {"raise", "bad"} THEN FailAt(T, S, p)
  ELSE IF n.kind = "null" THEN (IF n.nn THEN FailAt(T, S, p) ELSE [S EXCEPT ![p] = "null"])
  ELSE IF n.kind = "leaf" THEN [S EXCEPT ![p] = "val"]
  ELSE IF n.kind = "obj" THEN ExecKids(T, S, p, 1)
  ELSE IF n.kind = "alist" THEN [S EXCEPT ![p] = "spawn"]
  ELSE ListItems(T, S, p, 1)

\* execute_fields
ExecKids(T, S, p, i) ==
  LET ks == T[p].kids IN
  IF i > Len(ks) THEN AfterKids(T, S, p)
  ELSE LET S1 == StartPos(T, S, ks[i]) IN
       IF S1[ks[i]] = "fail" THEN FailAt(T, S1, p)        \* later fields are not started; pending ones become orphans
       ELSE ExecKids(T, S1, p, i + 1)

\* complete_iterable_value
ListItems(T, S, p, i) ==
  LET ks == T[p].kids IN
  IF i > Len(ks) THEN AfterKids(T, S, p)
  ELSE LET k == ks[i] IN
       IF T[k].gate THEN ListItems(T, [S EXCEPT ![k] = "wait"], p, i + 1)
       ELSE LET S1 == CompleteNow(T, S, k) IN
            IF S1[k] = "fail"
            THEN FailAt(T, [q \in DOMAIN S1 |-> IF \E j \in (i + 1)..Len(ks) : q = ks[j] /\ T[q].gate THEN "rawwait" ELSE S1[q]], p)
            ELSE ListItems(T, S1, p, i + 1)

\* execute_fields_serially (root of a mutation)
RECURSIVE ExecSerial(_, _, _)
ExecSerial(T, S, i) ==
  LET ks == T[<<>>].kids IN
  IF i > Len(ks) THEN [S EXCEPT ![<<>>] = "val"]
  ELSE LET S1 == StartPos(T, S, ks[i]) IN
       IF S1[ks[i]] = "fail" THEN [S1 EXCEPT ![<<>>] = "fail"]
       ELSE IF Active(S1[ks[i]]) THEN [S1 EXCEPT ![<<>>] = "run"]
       ELSE ExecSerial(T, S1, i + 1)

\* cancellation travels along awaited work only
RECURSIVE CancelSub(_, _, _), CancelList(_, _, _)
CancelList(T, S, ps) == IF ps = <<>> THEN S ELSE CancelList(T, CancelSub(T, S, Head(ps)), Tail(ps))
Unlatent(S, p) == [q \in DOMAIN S |-> IF IsPrefixOf(p, q) /\ S[q] = "latent" THEN "wait"
                                       ELSE IF IsPrefixOf(p, q) /\ S[q] = "lspawn" THEN "spawn" ELSE S[q]]
CancelSub(T, S, k) ==
  IF S[k] \in {"wait", "latent", "lspawn"} THEN [S EXCEPT ![k] = "cancelled"]
  ELSE IF S[k] = "run" THEN CancelList(T, [S EXCEPT ![k] = "cancelled"], T[k].kids)
  \* an iteration that is cancelled leaves the awaitables it has collected to settle in the background
  ELSE IF IsIter(S[k]) THEN Unlatent([S EXCEPT ![k] = "cancelled"], k)
  ELSE IF S[k] = "spawn" THEN [S EXCEPT ![k] = "cancelled"]
  ELSE S

IndexOf(q, x) == CHOOSE j \in 1..Len(q) : q[j] = x

\* p has just reached a status: tell whoever awaits it
RECURSIVE Propagate(_, _, _, _)
Propagate(T, S, p, serial) ==
  IF Active(S[p]) \/ p = <<>> THEN S
  ELSE LET q == Parent(p) IN
       IF S[q] # "run" THEN S                                            \* an orphan: nobody awaits p
       ELSE IF q = <<>> /\ serial
            THEN (IF S[p] = "fail" THEN [S EXCEPT ![q] = "fail"] ELSE ExecSerial(T, S, IndexOf(T[q].kids, p) + 1))
       ELSE IF S[p] = "fail"
            THEN Propagate(T, FailAt(T, CancelList(T, S, T[q].kids), q), q, serial)    \* gather_with_cancel
       ELSE IF \E j \in 1..Len(T[q].kids) : Active(S[T[q].kids[j]]) THEN S
       ELSE Propagate(T, [S EXCEPT ![q] = "val"], q, serial)

\* complete_async_iterator_value from its k-th step on
RECURSIVE AIterFrom(_, _, _, _, _, _), AIterStep(_, _, _, _, _, _)
AIterFrom(T, G, S, p, k, serial) ==
  IF StepGated(G, p, k) THEN [S EXCEPT ![p] = IterSt(k)] ELSE AIterStep(T, G, S, p, k, serial)
\* the k-th __anext__ has returned
AIterStep(T, G, S, p, k, serial) ==
  LET ks == T[p].kids IN
  IF k >= Len(ks)
  THEN Propagate(T, AfterKids(T, Unlatent(S, p), p), p, serial)                    \* StopAsyncIteration: await the collected items
  ELSE LET item == ks[k + 1]
           S1 == CompleteNow(T, S, item)
       IN IF S1[item] = "fail"
          THEN Propagate(T, FailAt(T, Unlatent(S1, p), p), p, serial)               \* the iteration is abandoned
          \* gates below the item that the item still awaits stay latent; those of a subtree that failed synchronously were
          \* handed to settle_in_background and are started at once
          ELSE AIterFrom(T, G, [q \in DOMAIN S1 |-> IF S[q] = "idle" /\ S1[q] \in {"wait", "spawn"} /\ IsPrefixOf(item, q)
                                                       /\ (\A j \in Len(item)..(Len(q) - 1) : S1[SubSeq(q, 1, j)] = "run")
                                                    THEN (IF S1[q] = "wait" THEN "latent" ELSE "lspawn") ELSE S1[q]],
                         p, k + 1, serial)

\* the coroutines created in this turn run (each may create more)
RECURSIVE Drain(_, _, _, _)
Drain(T, G, S, serial) ==
  IF \A p \in DOMAIN S : S[p] # "spawn" THEN S
  ELSE LET p == CHOOSE q \in DOMAIN S : S[q] = "spawn" IN Drain(T, G, AIterFrom(T, G, S, p, 0, serial), serial)

IterGate(p, k) == Append(p, [n |-> k])
Pending(S) == {p \in DOMAIN S : S[p] \in {"wait", "rawwait"}} \cup {IterGate(p, IterIdx(S[p])) : p \in {q \in DOMAIN S : IsIter(S[q])}}
IsIterGate(g) == g # <<>> /\ "n" \in DOMAIN g[Len(g)]
GatePos(g) == IF IsIterGate(g) THEN SubSeq(g, 1, Len(g) - 1) ELSE g
Settle(T, G, S, g, serial) ==
  IF IsIterGate(g) THEN Drain(T, G, AIterStep(T, G, S, GatePos(g), g[Len(g)].n, serial), serial)
  ELSE IF S[g] = "rawwait" THEN [S EXCEPT ![g] = "rawdone"]
  ELSE Drain(T, G, Propagate(T, CompleteNow(T, S, g), g, serial), serial)

Start(T, G, serial) ==
  LET S0 == [p \in DOMAIN T |-> "idle"] IN
  Drain(T, G, IF serial THEN ExecSerial(T, S0, 1) ELSE ExecKids(T, S0, <<>>, 1), serial)

\* ---- the response ----------------------------------------------------------------
Ready(S) == Final(S[<<>>])
RECURSIVE DataAt(_, _, _)
DataAt(T, S, p) ==
  IF S[p] # "val" THEN Null
  ELSE LET n == T[p] IN
       IF n.kind = "leaf" THEN n.v
       ELSE IF n.kind = "obj" THEN [t |-> "o", kv |-> [i \in 1..Len(n.kids) |-> <<n.kids[i][Len(n.kids[i])].s, DataAt(T, S, n.kids[i])>>]]
       ELSE [t |-> "l", v |-> [i \in 1..Len(n.kids) |-> DataAt(T, S, n.kids[i])]]      \* "list" and "alist"
Visible(S, p) == \A k \in 0..(Len(p) - 1) : S[SubSeq(p, 1, k)] = "val"
Nulled(S) == {p \in DOMAIN S : S[p] = "enull" /\ Visible(S, p)} \cup (IF S[<<>>] = "fail" THEN {<<>>} ELSE {})
Response(T, S) == [data |-> DataAt(T, S, <<>>), nulled |-> Nulled(S)]

\* ---- what must hold in every reachable state (MCAsyncExec) ---------------------------
Awaited(S, p) == \A k \in 0..(Len(p) - 1) : S[SubSeq(p, 1, k)] = "run"
ConfluentWith(T, S, spec) ==        \* spec = Execute(R0)
  Ready(S) => /\ DataAt(T, S, <<>>) = spec.data
              /\ Nulled(S) = NulledPositions([data |-> spec.data, errors |-> spec.errors])
NoHang(S) == ~Ready(S) => Pending(S) # {}
SerialRoots(T, S, serial) == serial => Cardinality({j \in 1..Len(T[<<>>].kids) : Active(S[T[<<>>].kids[j]])}) <= 1
OnlyOrphansAfterReady(S) == Ready(S) => \A g \in Pending(S) : ~(Awaited(S, GatePos(g)) /\ (IsIterGate(g) => TRUE))
=============================================================================
