------------------------------ MODULE LexEnum ------------------------------
(* G direction: all strings Prefix \o w with w over Alphabet, |w| <= MaxLen;  *)
(* emits the specification's token stream (or first lexical error) for each   *)
(* and checks the grammar theorems of C09 on each (M).                         *)
EXTENDS Lexical
CONSTANTS Alphabet, MaxLen, Prefix, CheckLaws
VARIABLE s
Init == s = Prefix
Next == Len(s) < MaxLen + Len(Prefix) /\ \E c \in Alphabet : s' = Append(s, c)
Laws == CheckLaws => SpansOK(s) /\ InsertInvisible(s) /\ StripLaws(s)
Emit == PrintT(ToJson([s |-> s, r |-> Lex(s)]))
\* alphabets
NumAlpha == {48, 49, 45, 43, 46, 101, 69, 97, 95, 32, 44, 123, 35, 10, 34, 120}         \* 0 1 - + . e E a _ SP , { # LF " x
StrAlpha == {34, 92, 117, 123, 125, 48, 70, 103, 110, 47, 10, 13, 97, 55357, 56832, 128512} \* " \ u { } 0 F g n / LF CR a HI LO ASTRAL
LayAlpha == {32, 9, 10, 13, 44, 65279, 35, 97, 49, 123, 46, 34, 12, 133, 8232, 33}         \* SP TAB LF CR , BOM # a 1 { . " FF NEL LS !
EscAlpha == {34, 92, 117, 123, 125, 48, 70, 103, 110, 55357, 56832, 128512}                \* " \ u { } 0 F g n HI LO ASTRAL
BlkAlpha == {34, 92, 10, 13, 32, 9, 97, 12, 133, 8232, 11, 28}                             \* " \ LF CR SP TAB a FF NEL LS VT FS
QuotePrefix == <<34>>
BlockPrefix == <<34, 34, 34>>
NoPrefix == <<>>
=============================================================================
