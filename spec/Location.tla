------------------------------ MODULE Location ------------------------------
(* P-spec for C10: the true line/column of an offset in a source text.       *)
(* Line terminators are LF, CR LF (one terminator) and CR -- and nothing     *)
(* else (GraphQL spec, 2.1.3 / graphql-js getLocation).  Text is a sequence  *)
(* of symbols; only the symbols "LF" and "CR" are terminators, every other   *)
(* symbol (incl. FF, NEL, LS, which Python's str.splitlines treats as line   *)
(* boundaries) is an ordinary character.                                      *)
EXTENDS Naturals, Sequences, TLC, Json

CONSTANT MaxLen
Sym == {"a", "SP", "LF", "CR", "FF", "NEL", "LS", "HASH", "QUOTE", "LBRACE"}

VARIABLE s

\* Loc(src, off): off is a 0-based offset in 0..Len(src).
\* line = 1 + number of terminators that end at or before off; column = 1 + off - end of last one.
RECURSIVE Scan(_, _, _, _, _)
Scan(src, i, off, line, lineStart) ==   \* i = 0-based index of the next character
  IF i >= off THEN <<line, 1 + off - lineStart>>
  ELSE LET c == src[i + 1] IN
       IF c = "LF" THEN Scan(src, i + 1, off, line + 1, i + 1)
       ELSE IF c = "CR" THEN
            IF i + 1 < Len(src) /\ src[i + 2] = "LF"
            THEN (IF i + 2 <= off THEN Scan(src, i + 2, off, line + 1, i + 2)
                  ELSE <<line, 1 + off - lineStart>>)   \* offset strictly inside CR LF: excluded from verdicts
            ELSE Scan(src, i + 1, off, line + 1, i + 1)
       ELSE Scan(src, i + 1, off, line, lineStart)
Loc(src, off) == Scan(src, 0, off, 1, 0)

InsideCRLF(src, off) == off >= 1 /\ off < Len(src) /\ src[off] = "CR" /\ src[off + 1] = "LF"

\* Lines(src): sequence of <<start, end>> (0-based, end exclusive, terminator not included)
RECURSIVE LinesFrom(_, _, _)
LinesFrom(src, i, start) ==
  IF i >= Len(src) THEN << <<start, Len(src)>> >>
  ELSE LET c == src[i + 1] IN
       IF c = "LF" THEN << <<start, i>> >> \o LinesFrom(src, i + 1, i + 1)
       ELSE IF c = "CR" THEN
            IF i + 1 < Len(src) /\ src[i + 2] = "LF"
            THEN << <<start, i>> >> \o LinesFrom(src, i + 2, i + 2)
            ELSE << <<start, i>> >> \o LinesFrom(src, i + 1, i + 1)
       ELSE LinesFrom(src, i + 1, start)
Lines(src) == LinesFrom(src, 0, 0)

\* a configured location offset shifts lines, and columns of the first line only
WithOffset(loc, lo) == << loc[1] + lo[1] - 1, IF loc[1] = 1 THEN loc[2] + lo[2] - 1 ELSE loc[2] >>

\* theorems of the spec itself, checked on every enumerated string (M)
LocInLines(src) ==
  \A off \in 0..Len(src) :
     InsideCRLF(src, off) \/
     LET l == Loc(src, off) ln == Lines(src) IN
       /\ l[1] \in 1..Len(ln)
       /\ ln[l[1]][1] + l[2] - 1 = off          \* column counts from the start of the named line
       /\ off <= ln[l[1]][2]                    \* and does not run past its end
LocMonotone(src) ==
  \A o1, o2 \in 0..Len(src) : o1 <= o2 =>
     LET a == Loc(src, o1) b == Loc(src, o2) IN a[1] < b[1] \/ (a[1] = b[1] /\ a[2] <= b[2])

Init == s = <<>>
Next == Len(s) < MaxLen /\ \E c \in Sym : s' = Append(s, c)
SpecOK == LocInLines(s) /\ LocMonotone(s)
Emit == PrintT(ToJson([s |-> s,
                       locs |-> [o \in 1..(Len(s) + 1) |-> Loc(s, o - 1)],
                       inside |-> [o \in 1..(Len(s) + 1) |-> InsideCRLF(s, o - 1)],
                       lines |-> Lines(s)]))
=============================================================================
