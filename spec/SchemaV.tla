------------------------------- MODULE SchemaV -------------------------------
(* V direction for C17-C20: records about abstract schemas and what the real   *)
(* library did with their renderings.                                          *)
(*  [kind |-> "validity", schema, realErrors: Nat]  C20: validate_schema(s) is  *)
(*       empty exactly when the specification's rules hold                      *)
(*  [kind |-> "roundtrip", schema, projections: Seq(schema)]  C17/C18/C19: each *)
(*       projection of a transformed real schema equals the abstract schema     *)
EXTENDS SchemaValid, Json, IOUtils
Cases == JsonDeserialize(IOEnv.CASES)
VARIABLE i
Init == i \in 1..Len(Cases)
Next == UNCHANGED i
Clause(c) ==
  CASE c.kind = "validity" ->
         IF SchemaValid(c.schema) /\ c.realErrors > 0 THEN "valid-schema-rejected"
         ELSE IF ~SchemaValid(c.schema) /\ c.realErrors = 0 THEN "invalid-schema-accepted"
         ELSE "ok"
    [] c.kind = "roundtrip" ->
         IF ~SchemaValid(c.schema) THEN "generator-produced-invalid-schema"
         ELSE IF \E k \in 1..Len(c.projections) : c.projections[k] # c.schema THEN "projection-differs"
         ELSE "ok"
Check == LET c == Cases[i] cl == Clause(c) IN
         cl = "ok" \/ PrintT(ToJson([viol |-> i, clause |-> cl, rules |-> Violations(c.schema),
                                      which |-> IF c.kind = "roundtrip" /\ \E k \in 1..Len(c.projections) : c.projections[k] # c.schema
                                                THEN CHOOSE k \in 1..Len(c.projections) : c.projections[k] # c.schema ELSE 0]))
=============================================================================
