---------------------------- MODULE ValidateLaws ----------------------------
(* P-spec for C12: validation is a deterministic, compositional function of   *)
(* document and schema.  Errors are abstracted by the harness to small         *)
(* integers: one id per distinct (message, locations) pair, and one id per     *)
(* distinct message for the layout-independent comparisons.                    *)
(* record: [all: Seq(id), alone: Seq(Seq(id)), subsets: Seq([rules: Seq(Nat),  *)
(*   errors: Seq(id)]), again: Seq(id), msgs: Seq(mid), variants: Seq(Seq(mid)),*)
(*   limited: Seq([n, errors: Seq(id), aborted: BOOLEAN]), unchanged: BOOLEAN]  *)
EXTENDS Naturals, Sequences, FiniteSets, TLC

SeqSet(q) == {q[i] : i \in 1..Len(q)}
Count(x, q) == Cardinality({i \in 1..Len(q) : q[i] = x})
SameBag(a, b) == Len(a) = Len(b) /\ \A x \in SeqSet(a) \cup SeqSet(b) : Count(x, a) = Count(x, b)
RECURSIVE Concat(_)
Concat(qs) == IF qs = <<>> THEN <<>> ELSE Head(qs) \o Concat(Tail(qs))
IsPrefix(p, q) == Len(p) <= Len(q) /\ SubSeq(q, 1, Len(p)) = p
Min(a, b) == IF a <= b THEN a ELSE b

\* V1: validating with a set of rules reports exactly the union of what each rule reports alone
V1(c) == /\ SameBag(c.all, Concat(c.alone))
         /\ \A k \in 1..Len(c.subsets) : SameBag(c.subsets[k].errors, Concat([j \in 1..Len(c.subsets[k].rules) |-> c.alone[c.subsets[k].rules[j]]]))
\* V2: the reported messages do not depend on layout, reprinting or descriptions
V2(c) == \A k \in 1..Len(c.variants) : SameBag(c.variants[k], c.msgs)
\* V3: determinism, purity and history independence (again = the same call repeated, also after runs cut short by every error limit)
V3(c) == c.again = c.all /\ c.unchanged
\* V4: with a limit n: the first min(n, total) errors, followed by exactly one abort notice iff total > n
V4(c) == \A k \in 1..Len(c.limited) :
           LET l == c.limited[k] total == Len(c.all) IN
           /\ l.errors = SubSeq(c.all, 1, Min(l.n, total))
           /\ l.aborted = (total > l.n)
Clause(c) == IF ~V1(c) THEN "V1-not-the-union-of-the-rules"
             ELSE IF ~V2(c) THEN "V2-messages-depend-on-layout"
             ELSE IF ~V3(c) THEN "V3-not-deterministic-or-not-pure"
             ELSE IF ~V4(c) THEN "V4-error-limit"
             ELSE "ok"
=============================================================================
