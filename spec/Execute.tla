------------------------------ MODULE Execute ------------------------------
(* P-spec: the execution algorithm of the GraphQL specification (section 6)   *)
(* over the abstract GraphQL domain ("gqlmini"), for synchronous data.        *)
(*                                                                             *)
(*   CoerceVariableValues, CollectFields (with @skip/@include, inline          *)
(*   fragments, fragment spreads with a visited set, type conditions incl.     *)
(*   abstract types), ExecuteSelectionSet (ordered result map),                *)
(*   CoerceArgumentValues (literal / variable / default / missing rules),      *)
(*   CompleteValue (non-null, list, leaf, abstract, object) and field-error    *)
(*   handling with propagation to the nearest nullable ancestor.               *)
(*                                                                             *)
(* Result: [data, errors: Seq(path) in execution order,                        *)
(*          calls: Seq([path, args]) - the resolver invocations with the       *)
(*          coerced argument maps].                                            *)
(*                                                                             *)
(* request record (wire format):                                               *)
(*  schema: [query, types: [name -> [kind, fields: [f -> [type, args: Seq([name, type, hasDefault, default])]], possible]]] *)
(*  doc:    [sel, frags: [name -> [on, sel]], vardefs: Seq([name, type, hasDefault, default])]       *)
(*  vars:   [name -> value]   (provided variable values, already JSON values) *)
(*  root:   outcome tree: [t |-> "v", v] | [t |-> "null"] | [t |-> "err"] | [t |-> "bad"] |           *)
(*          [t |-> "l", v |-> Seq(outcome)] | [t |-> "o", type, f |-> [field -> outcome]]            *)
EXTENDS Naturals, Sequences, FiniteSets, TLC

Null == [t |-> "null"]
IsNN(ty) == ty[1] = "NN"
IsL(ty)  == ty[1] = "L"
Named(ty) == ty[2]
RECURSIVE NamedOf(_)
NamedOf(ty) == IF ty[1] = "N" THEN ty[2] ELSE NamedOf(ty[2])
SeqSet(q) == {q[i] : i \in 1..Len(q)}

\* ---- response-level notions shared by C02/C03/C07 -----------------------------------
W == INSTANCE Wire
\* the position nulled by an error: the shortest prefix of its path at which data is null
RECURSIVE NullPrefix(_, _, _)
NullPrefix(data, e, k) == IF k > Len(e) THEN e
                          ELSE LET w == W!Walk(data, SubSeq(e, 1, k)) IN
                               IF w.found /\ ~w.stoppedAtNull /\ w.v # Null THEN NullPrefix(data, e, k + 1) ELSE SubSeq(e, 1, k)
NulledPositions(resp) == {NullPrefix(resp.data, resp.errors[k], 0) : k \in 1..Len(resp.errors)}

\* ---- variables -------------------------------------------------------------
\* CoerceVariableValues: -> [ok, vals: [name -> value]] ; values are Null or [t |-> "i"/"b", v]
Provided(vars, n) == n \in DOMAIN vars
\* input coercion of a provided variable value / of a default literal (constants only): -> [ok, v]
\* Int, Boolean, input objects and lists of them; a single value at a list type is wrapped into a list of one item
\* S = the schema (input object types: S.types[n].inputFields = Seq([name, type, hasDefault, default]))
ConstDefault(f) == f.default          \* a constant literal in wire form; coerced below like a value (no variables inside)
RECURSIVE VarCoerce(_, _, _), VarCoerceObj(_, _, _, _)
VarCoerce(S, ty, v) ==
  IF v = Null THEN [ok |-> ~IsNN(ty), v |-> Null]
  ELSE IF IsNN(ty) THEN VarCoerce(S, ty[2], v)
  ELSE IF IsL(ty) THEN
       (IF v.t = "l"
        THEN LET rs == [k \in 1..Len(v.v) |-> VarCoerce(S, ty[2], v.v[k])] IN
             [ok |-> \A k \in 1..Len(rs) : rs[k].ok, v |-> [t |-> "l", v |-> [k \in 1..Len(rs) |-> rs[k].v]]]
        ELSE LET r == VarCoerce(S, ty[2], v) IN [ok |-> r.ok, v |-> [t |-> "l", v |-> <<r.v>>]])
  ELSE LET nm == NamedOf(ty) IN
       IF nm \in DOMAIN S.types /\ S.types[nm].kind = "INPUT_OBJECT"
       \* spec 3.10 Input Coercion of a map: every entry names a field; field by field in definition order - an entry (also an
       \* explicit null) is coerced to the field type, a missing one takes the default, is an error if required, or stays out
       THEN (IF v.t # "o" THEN [ok |-> FALSE, v |-> Null]
             ELSE LET fs == S.types[nm].inputFields
                      known == \A k \in 1..Len(v.kv) : \E j \in 1..Len(fs) : fs[j].name = v.kv[k][1]
                  IN IF ~known THEN [ok |-> FALSE, v |-> Null] ELSE VarCoerceObj(S, v, fs, [ok |-> TRUE, kv |-> <<>>]))
       ELSE [ok |-> (nm = "Int" /\ v.t = "i") \/ (nm = "Boolean" /\ v.t = "b"), v |-> v]
VarCoerceObj(S, v, fs, acc) ==
  IF fs = <<>> THEN [ok |-> acc.ok, v |-> IF acc.ok THEN [t |-> "o", kv |-> acc.kv] ELSE Null]
  ELSE LET f == Head(fs)
           given == \E k \in 1..Len(v.kv) : v.kv[k][1] = f.name
       IN IF given
          THEN LET r == VarCoerce(S, f.type, v.kv[CHOOSE k \in 1..Len(v.kv) : v.kv[k][1] = f.name][2]) IN
               VarCoerceObj(S, v, Tail(fs), [ok |-> acc.ok /\ r.ok, kv |-> Append(acc.kv, <<f.name, r.v>>)])
          ELSE IF f.hasDefault THEN VarCoerceObj(S, v, Tail(fs), [acc EXCEPT !.kv = Append(@, <<f.name, VarCoerce(S, f.type, ConstDefault(f)).v>>)])
          ELSE IF IsNN(f.type) THEN [ok |-> FALSE, v |-> Null]
          ELSE VarCoerceObj(S, v, Tail(fs), acc)
VarValueOK(S, ty, v) == VarCoerce(S, ty, v).ok
RECURSIVE CoerceVars(_, _, _, _)
CoerceVars(S, defs, vars, acc) ==
  IF defs = <<>> THEN [ok |-> TRUE, vals |-> acc]
  ELSE LET d == Head(defs) IN
       IF Provided(vars, d.name)
       THEN LET r == VarCoerce(S, d.type, vars[d.name]) IN
            IF r.ok
            THEN CoerceVars(S, Tail(defs), vars, [n \in DOMAIN acc \cup {d.name} |-> IF n = d.name THEN r.v ELSE acc[n]])
            ELSE [ok |-> FALSE, vals |-> acc]
       ELSE IF d.hasDefault
            THEN CoerceVars(S, Tail(defs), vars, [n \in DOMAIN acc \cup {d.name} |-> IF n = d.name THEN VarCoerce(S, d.type, d.default).v ELSE acc[n]])
       ELSE IF IsNN(d.type) THEN [ok |-> FALSE, vals |-> acc]
       ELSE CoerceVars(S, Tail(defs), vars, acc)            \* no entry: the variable is absent

\* ---- CollectFields -------------------------------------------------------
Matches(S, cond, objType) ==
  \/ cond = ""
  \/ cond = objType
  \/ (cond \in DOMAIN S.types /\ S.types[cond].kind \in {"INTERFACE", "UNION"} /\ objType \in SeqSet(S.types[cond].possible))

DirValue(d, vals) == IF "lit" \in DOMAIN d.v THEN d.v.lit
                     ELSE IF d.v.var \in DOMAIN vals /\ vals[d.v.var] # Null THEN vals[d.v.var].v ELSE FALSE
\* @skip(if: true) or @include(if: false) excludes the selection; skip has precedence either way (both must allow)
Included(dirs, vals) ==
  \A k \in 1..Len(dirs) : CASE dirs[k].d = "skip" -> ~DirValue(dirs[k], vals)
                                [] dirs[k].d = "include" -> DirValue(dirs[k], vals)
                                [] OTHER -> TRUE
\* an active @defer (its `if` is true) on a fragment
DeferActive(dirs, vals) == \E k \in 1..Len(dirs) : dirs[k].d = "defer" /\ DirValue(dirs[k], vals)

\* returns [fields: Seq(field selections in document order), visited]
RECURSIVE Flatten(_, _, _, _, _)
Flatten(R, sels, objType, visited, acc) ==
  IF sels = <<>> THEN [fields |-> acc, visited |-> visited]
  ELSE LET h == Head(sels) IN
       IF ~Included(h.dirs, R.vals) THEN Flatten(R, Tail(sels), objType, visited, acc)
       ELSE IF h.k = "F" THEN Flatten(R, Tail(sels), objType, visited, Append(acc, h))
       ELSE IF h.k = "I" THEN
            IF Matches(R.schema, h.on, objType)
            THEN LET r == Flatten(R, h.sel, objType, visited, acc) IN Flatten(R, Tail(sels), objType, r.visited, r.fields)
            ELSE Flatten(R, Tail(sels), objType, visited, acc)
       ELSE \* fragment spread
            IF h.name \in visited \/ h.name \notin DOMAIN R.doc.frags THEN Flatten(R, Tail(sels), objType, visited, acc)
            ELSE LET fr == R.doc.frags[h.name] v2 == visited \cup {h.name} IN
                 IF Matches(R.schema, fr.on, objType)
                 THEN LET r == Flatten(R, fr.sel, objType, v2, acc) IN Flatten(R, Tail(sels), objType, r.visited, r.fields)
                 ELSE Flatten(R, Tail(sels), objType, v2, acc)

Collect(R, sels, objType) == Flatten(R, sels, objType, {}, <<>>).fields

\* Does collecting this selection set for objType meet an active @defer on a fragment that applies? An executor without
\* incremental delivery (subscriptions; execute() proper) answers such a position with a field error.
\* -> [met, visited]
RECURSIVE DeferMet(_, _, _, _)
DeferMet(R, sels, objType, visited) ==
  IF sels = <<>> THEN [met |-> FALSE, visited |-> visited]
  ELSE LET h == Head(sels)
           r == IF ~Included(h.dirs, R.vals) \/ h.k = "F" THEN [met |-> FALSE, visited |-> visited]
                ELSE IF h.k = "I" THEN
                     (IF ~Matches(R.schema, h.on, objType) THEN [met |-> FALSE, visited |-> visited]
                      ELSE IF DeferActive(h.dirs, R.vals) THEN [met |-> TRUE, visited |-> visited]
                      ELSE DeferMet(R, h.sel, objType, visited))
                ELSE IF h.name \in visited \/ h.name \notin DOMAIN R.doc.frags \/ ~Matches(R.schema, R.doc.frags[h.name].on, objType)
                     THEN [met |-> FALSE, visited |-> visited]
                ELSE IF DeferActive(h.dirs, R.vals) THEN [met |-> TRUE, visited |-> visited]
                ELSE DeferMet(R, R.doc.frags[h.name].sel, objType, visited \cup {h.name})
       IN IF r.met THEN r ELSE DeferMet(R, Tail(sels), objType, r.visited)

Key(f) == IF f.alias = "" THEN f.name ELSE f.alias
RECURSIVE Keys(_, _)
Keys(fs, seen) == IF fs = <<>> THEN <<>>
                  ELSE IF Key(Head(fs)) \in seen THEN Keys(Tail(fs), seen)
                  ELSE <<Key(Head(fs))>> \o Keys(Tail(fs), seen \cup {Key(Head(fs))})
Group(fs, k) == SelectSeq(fs, LAMBDA f : Key(f) = k)
RECURSIVE MergedSel(_)
MergedSel(fs) == IF fs = <<>> THEN <<>> ELSE Head(fs).sel \o MergedSel(Tail(fs))

\* ---- arguments ---------------------------------------------------------------
\* coercion of an argument literal that may contain variables (lists of literals / variables):
\* -> [ok, v]; a missing variable inside a list becomes null (and is invalid at a non-null item position)
\* wd = the variables whose definition has a default value: validation admits such a (nullable) variable at a non-null
\* position, and the specification defers the null check to run time
\* S = the schema (input object types: S.types[n].inputFields = Seq([name, type, hasDefault, default]))
RECURSIVE CoerceLit(_, _, _, _, _), CoerceObj(_, _, _, _, _, _)
CoerceLit(S, lit, ty, vals, wd) ==
  IF lit.t = "var" THEN
     (IF lit.n \in DOMAIN vals THEN [ok |-> ~(IsNN(ty) /\ vals[lit.n] = Null), v |-> vals[lit.n], legit |-> lit.n \in wd]
      ELSE [ok |-> ~IsNN(ty), v |-> Null, legit |-> lit.n \in wd])
  \* a failure inside the value keeps its own verdict; a null at the non-null position itself is deferred only for a variable
  ELSE IF IsNN(ty) THEN LET r == CoerceLit(S, lit, ty[2], vals, wd) IN
                        [ok |-> r.ok /\ r.v # Null, v |-> r.v, legit |-> IF ~r.ok THEN r.legit ELSE r.legit /\ lit.t = "var"]
  ELSE IF lit = Null THEN [ok |-> TRUE, v |-> Null, legit |-> TRUE]
  ELSE IF IsL(ty) THEN
       (IF lit.t = "l"
        THEN LET rs == [k \in 1..Len(lit.v) |-> CoerceLit(S, lit.v[k], ty[2], vals, wd)] IN
             [ok |-> \A k \in 1..Len(rs) : rs[k].ok, v |-> [t |-> "l", v |-> [k \in 1..Len(rs) |-> rs[k].v]],
              legit |-> \A k \in 1..Len(rs) : rs[k].ok \/ rs[k].legit]
        ELSE LET r == CoerceLit(S, lit, ty[2], vals, wd) IN [ok |-> r.ok, v |-> [t |-> "l", v |-> <<r.v>>], legit |-> r.legit])
  ELSE IF Named(ty) \in DOMAIN S.types /\ S.types[Named(ty)].kind = "INPUT_OBJECT"
       THEN (IF lit.t # "o" THEN [ok |-> FALSE, v |-> Null, legit |-> FALSE]
             ELSE CoerceObj(S, lit, S.types[Named(ty)].inputFields, vals, wd, [ok |-> TRUE, kv |-> <<>>, legit |-> TRUE]))
  ELSE [ok |-> TRUE, v |-> lit, legit |-> TRUE]

\* Input object literal (spec 3.10, "Input Coercion"): field by field in definition order. A field that is not given, or
\* given as a variable without a runtime value, takes its default - or is an error if it is required, or is left out.
LitField(lit, n) == lit.kv[CHOOSE k \in 1..Len(lit.kv) : lit.kv[k][1] = n][2]
CoerceObj(S, lit, fdefs, vals, wd, acc) ==
  IF fdefs = <<>> THEN [ok |-> acc.ok, v |-> [t |-> "o", kv |-> acc.kv], legit |-> acc.legit]
  ELSE LET f == Head(fdefs)
           given == \E k \in 1..Len(lit.kv) : lit.kv[k][1] = f.name
           a == IF given THEN LitField(lit, f.name) ELSE Null
           isVar == given /\ a.t = "var"
           absent == ~given \/ (isVar /\ a.n \notin DOMAIN vals)
       IN IF absent
          THEN (IF f.hasDefault THEN CoerceObj(S, lit, Tail(fdefs), vals, wd, [acc EXCEPT !.kv = Append(@, <<f.name, CoerceLit(S, f.default, f.type, <<>>, {}).v>>)])
                ELSE IF IsNN(f.type) THEN [ok |-> FALSE, v |-> Null, legit |-> acc.legit /\ isVar /\ a.n \in wd]
                ELSE CoerceObj(S, lit, Tail(fdefs), vals, wd, acc))
          ELSE LET r == CoerceLit(S, a, f.type, vals, wd) IN
               IF ~r.ok
               \* a (nullable) variable at a non-null field is admitted by validation only if the field or the variable has a default
               THEN [ok |-> FALSE, v |-> Null, legit |-> acc.legit /\ ((isVar /\ (f.hasDefault \/ a.n \in wd)) \/ (~isVar /\ r.legit))]
               ELSE CoerceObj(S, lit, Tail(fdefs), vals, wd, [acc EXCEPT !.kv = Append(@, <<f.name, r.v>>)])

\* CoerceArgumentValues for the first field of a group:
\* -> [ok, args: Seq(<<name, value>>) in definition order, legit]
\* legit: the failure is the one the specification defers to run time - a variable given as the whole argument
\* value is null / absent at a non-null argument (validation allows that position only because a default exists)
ArgGiven(field, n) == \E k \in 1..Len(field.args) : field.args[k][1] = n
ArgOf(field, n) == field.args[CHOOSE k \in 1..Len(field.args) : field.args[k][1] = n][2]
RECURSIVE CoerceArgs(_, _, _, _, _, _)
CoerceArgs(S, defs, field, vals, wd, acc) ==
  IF defs = <<>> THEN [ok |-> TRUE, args |-> acc, legit |-> TRUE]
  ELSE LET d == Head(defs)
           given == ArgGiven(field, d.name)
           a == IF given THEN ArgOf(field, d.name) ELSE Null
           isVar == given /\ a.t = "var"
           hasValue == IF isVar THEN a.n \in DOMAIN vals ELSE given
           cl == IF given /\ ~isVar THEN CoerceLit(S, a, d.type, vals, wd) ELSE [ok |-> TRUE, v |-> Null, legit |-> TRUE]
           value == IF isVar THEN (IF hasValue THEN vals[a.n] ELSE Null) ELSE cl.v
       IN IF ~hasValue /\ d.hasDefault THEN CoerceArgs(S, Tail(defs), field, vals, wd, Append(acc, <<d.name, CoerceLit(S, d.default, d.type, <<>>, {}).v>>))
          ELSE IF given /\ ~isVar /\ ~cl.ok THEN [ok |-> FALSE, args |-> acc, legit |-> cl.legit]
          ELSE IF IsNN(d.type) /\ (~hasValue \/ value = Null) THEN [ok |-> FALSE, args |-> acc, legit |-> isVar /\ (d.hasDefault \/ a.n \in wd)]
          ELSE IF hasValue THEN CoerceArgs(S, Tail(defs), field, vals, wd, Append(acc, <<d.name, value>>))
          ELSE CoerceArgs(S, Tail(defs), field, vals, wd, acc)

\* ---- execution ------------------------------------------------------------
\* results: [raised, v, at, errs, calls]
Val(v, errs, calls) == [raised |-> FALSE, v |-> v, at |-> <<>>, errs |-> errs, calls |-> calls]
Raise(at, errs, calls) == [raised |-> TRUE, v |-> Null, at |-> at, errs |-> errs, calls |-> calls]

LeafOK(S, tname, oc) ==
  /\ oc.t = "v"
  /\ CASE tname = "Int" -> oc.v.t = "i" [] tname = "Boolean" -> oc.v.t = "b" [] tname \in {"String", "ID"} -> oc.v.t = "s" [] OTHER -> TRUE

RECURSIVE ExecSel(_, _, _, _, _, _, _), Complete(_, _, _, _, _, _, _), CompleteItems(_, _, _, _, _, _, _, _, _)

ExecField(R, objType, obj, fs, path, errs, calls) ==
  LET name == fs[1].name IN
  IF name = "__typename" THEN Val([t |-> "s", v |-> objType], errs, calls)
  ELSE LET fd == R.schema.types[objType].fields[name]
           ty == fd.type
           ca == CoerceArgs(R.schema, fd.args, fs[1], R.vals, R.wd, <<>>)
       IN IF ~ca.ok
          THEN LET calls1 == Append(calls, [path |-> path, args |-> <<>>, failed |-> TRUE, legit |-> ca.legit]) IN   \* no resolver call: a marker instead
               (IF IsNN(ty) THEN Raise(path, errs, calls1) ELSE Val(Null, Append(errs, path), calls1))    \* argument coercion failed: field error
          ELSE LET calls2 == Append(calls, [path |-> path, args |-> ca.args])
                   oc == obj.f[name]
                   r  == IF oc.t = "err" THEN Raise(path, errs, calls2) ELSE Complete(R, ty, fs, oc, path, errs, calls2)
               IN IF r.raised /\ ~IsNN(ty) THEN Val(Null, Append(r.errs, r.at), r.calls) ELSE r

\* fold over the response keys in order; a raise short-circuits (later siblings are not executed)
ExecSel(R, objType, obj, allFields, keys, path, acc) ==   \* acc = [kv, errs, calls]
  IF keys = <<>> THEN Val([t |-> "o", kv |-> acc.kv], acc.errs, acc.calls)
  ELSE LET k == Head(keys)
           g == Group(allFields, k)
           defined == g[1].name = "__typename" \/ g[1].name \in DOMAIN R.schema.types[objType].fields
       IN IF ~defined THEN ExecSel(R, objType, obj, allFields, Tail(keys), path, acc)   \* "if fieldType is defined"
          ELSE LET r == ExecField(R, objType, obj, g, Append(path, [s |-> k]), acc.errs, acc.calls) IN
               IF r.raised THEN r
               ELSE ExecSel(R, objType, obj, allFields, Tail(keys), path, [kv |-> Append(acc.kv, <<k, r.v>>), errs |-> r.errs, calls |-> r.calls])

CompleteItems(R, ity, fs, items, i, path, vs, errs, calls) ==
  IF i > Len(items) THEN Val([t |-> "l", v |-> vs], errs, calls)
  ELSE LET ipath == Append(path, [i |-> i - 1])
           oc == items[i]
           r0 == IF oc.t = "err" THEN Raise(ipath, errs, calls) ELSE Complete(R, ity, fs, oc, ipath, errs, calls)
           r  == IF r0.raised /\ ~IsNN(ity) THEN Val(Null, Append(r0.errs, r0.at), r0.calls) ELSE r0
       IN IF r.raised THEN r ELSE CompleteItems(R, ity, fs, items, i + 1, path, Append(vs, r.v), r.errs, r.calls)

Complete(R, ty, fs, oc, path, errs, calls) ==
  IF IsNN(ty)
  THEN LET r == Complete(R, ty[2], fs, oc, path, errs, calls)
       IN IF r.raised THEN r ELSE IF r.v = Null THEN Raise(path, r.errs, r.calls) ELSE r
  ELSE IF oc.t = "null" THEN Val(Null, errs, calls)
  ELSE IF IsL(ty)
       THEN IF oc.t # "l" THEN Raise(path, errs, calls) ELSE CompleteItems(R, ty[2], fs, oc.v, 1, path, <<>>, errs, calls)
  ELSE LET S == R.schema kind == S.types[Named(ty)].kind IN
       IF kind = "SCALAR" THEN (IF LeafOK(S, Named(ty), oc) THEN Val(oc.v, errs, calls) ELSE Raise(path, errs, calls))
       ELSE IF oc.t # "o" THEN Raise(path, errs, calls)
       ELSE LET rt == oc.type
                okType == /\ rt \in DOMAIN S.types /\ S.types[rt].kind = "OBJECT"
                          /\ ~("reject" \in DOMAIN oc /\ oc.reject)          \* the object type's is_type_of accepts the value
                          /\ (IF kind = "OBJECT" THEN rt = Named(ty) ELSE Matches(S, Named(ty), rt))
            IN IF ~okType THEN Raise(path, errs, calls)
               ELSE IF R.noIncr /\ DeferMet(R, MergedSel(fs), rt, {}).met THEN Raise(path, errs, calls)
               ELSE LET fl == Collect(R, MergedSel(fs), rt)
                    IN ExecSel(R, rt, oc, fl, Keys(fl, {}), path, [kv |-> <<>>, errs |-> errs, calls |-> calls])

\* R0 = [schema, doc, vars, root]
Execute(R0) ==
  LET cv == CoerceVars(R0.schema, R0.doc.vardefs, R0.vars, <<>>) IN
  IF ~cv.ok THEN [data |-> [t |-> "absent"], errors |-> <<>>, calls |-> <<>>, requestError |-> TRUE]
  ELSE LET R == [schema |-> R0.schema, doc |-> R0.doc, vals |-> cv.vals, noIncr |-> "noIncr" \in DOMAIN R0 /\ R0.noIncr,
                    wd |-> {R0.doc.vardefs[k].name : k \in {j \in 1..Len(R0.doc.vardefs) : R0.doc.vardefs[j].hasDefault}}]
           fl == Collect(R, R0.doc.sel, R0.schema.query)
           r  == ExecSel(R, R0.schema.query, R0.root, fl, Keys(fl, {}), <<>>, [kv |-> <<>>, errs |-> <<>>, calls |-> <<>>])
       IN IF r.raised THEN [data |-> Null, errors |-> Append(r.errs, r.at), calls |-> r.calls, requestError |-> FALSE]
          ELSE [data |-> r.v, errors |-> r.errs, calls |-> r.calls, requestError |-> FALSE]
=============================================================================
