------------------------------ MODULE Subscribe ------------------------------
(* I-spec of MapSourceToResponseEvent as implemented by map_async_iterable     *)
(* over the source event stream: a pull-driven pipeline.  The consumer's pull  *)
(* asks the source for the next event (the source may answer later), maps it   *)
(* (the per-event execution may itself take time) and delivers the response.   *)
EXTENDS Naturals, Sequences, TLC
CONSTANTS NEvents, SourceFails     \* the source emits NEvents events, then ends or raises
VARIABLES emitted,   \* number of events the source has handed over
          src,       \* "idle" | "asked" | "ended" | "failed" | "closed"
          cons,      \* "idle" | "waitSource" | "mapping" | "done" | "raised"
          out,       \* Seq of event numbers whose responses were delivered
          closes     \* aclose() calls on the source
vars == <<emitted, src, cons, out, closes>>
Init == emitted = 0 /\ src = "idle" /\ cons = "idle" /\ out = <<>> /\ closes = 0
Pull == cons = "idle" /\ src = "idle" /\ cons' = "waitSource" /\ src' = "asked" /\ UNCHANGED <<emitted, out, closes>>
SourceEmit == src = "asked" /\ emitted < NEvents /\ emitted' = emitted + 1 /\ src' = "idle" /\ cons' = "mapping" /\ UNCHANGED <<out, closes>>
SourceEnd == src = "asked" /\ emitted = NEvents /\ ~SourceFails /\ src' = "ended" /\ cons' = "done" /\ closes' = closes + 1 /\ UNCHANGED <<emitted, out>>
SourceFail == src = "asked" /\ emitted = NEvents /\ SourceFails /\ src' = "failed" /\ cons' = "raised" /\ closes' = closes + 1 /\ UNCHANGED <<emitted, out>>
MapDone == cons = "mapping" /\ out' = Append(out, emitted) /\ cons' = "idle" /\ UNCHANGED <<emitted, src, closes>>
Close == cons = "idle" /\ src = "idle" /\ cons' = "done" /\ src' = "closed" /\ closes' = closes + 1 /\ UNCHANGED <<emitted, out>>
Next == Pull \/ SourceEmit \/ SourceEnd \/ SourceFail \/ MapDone \/ Close
Spec == Init /\ [][Next]_vars /\ WF_vars(Pull \/ SourceEmit \/ SourceEnd \/ SourceFail \/ MapDone)
\* S1: one response per consumed event, in order
OneToOne == \A k \in 1..Len(out) : out[k] = k
NoLoss == Len(out) <= emitted /\ emitted <= Len(out) + 1
\* S4/S5: the stream finishes exactly when the source does
EndsWithSource == (cons = "done" /\ src = "ended") => Len(out) = NEvents
FailsAfterAll == cons = "raised" => Len(out) = NEvents /\ src = "failed"
ClosedOnce == closes <= 1
Finishes == <>(cons \in {"done", "raised"})
=============================================================================
