------------------------------ MODULE Pipeline ------------------------------
(* P-spec for C01: the request pipeline is total.                            *)
(* (1) The stages of a request as a state machine: each stage either ends    *)
(*     the run with an errors-only result or hands on; no state is an        *)
(*     "exception" state.  (2) WellFormedResult: the response format of the  *)
(*     GraphQL specification (section 7.1) over the wire encoding.           *)
EXTENDS Wire, TLC

Stages == <<"schema", "parse", "validate", "variables", "execute">>
VARIABLES stage, result
vars == <<stage, result>>
NoResult == [kind |-> "none"]
Init == stage = 1 /\ result = NoResult
\* a stage fails -> errors-only result; the last stage produces data (possibly null) and maybe errors
Fail == stage \in 1..4 /\ result = NoResult /\ result' = [kind |-> "errorsOnly", at |-> Stages[stage]] /\ UNCHANGED stage
Pass == stage \in 1..4 /\ result = NoResult /\ stage' = stage + 1 /\ UNCHANGED result
Exec == stage = 5 /\ result = NoResult /\ \E d \in {"data", "nullData"}, e \in BOOLEAN :
          (d = "nullData" => e) /\ result' = [kind |-> d, errors |-> e, at |-> "execute"] /\ UNCHANGED stage
Next == Fail \/ Pass \/ Exec
Spec == Init /\ [][Next]_vars
\* design-level statement: every terminal state carries a result, never an exception
Total == (~ENABLED Next) => result.kind \in {"errorsOnly", "data", "nullData"}
NoPartialDataBeforeExecution == result.kind = "errorsOnly" => result.at # "execute"

---------------------------------------------------------------------------
(* recorded result: [hasData, data, hasErrors, errors: Seq([msgIsStr, hasLocs, locs: Seq(<<l,c>>),   *)
(*                   hasPath, path, extIsMap]), stage]                                           *)
ErrorOK(e) ==
  /\ e.msgIsStr
  /\ (e.hasLocs => e.locs # <<>> /\ \A k \in 1..Len(e.locs) : e.locs[k][1] >= 1 /\ e.locs[k][2] >= 1)
  /\ (e.hasPath => \A k \in 1..Len(e.path) : IsKeySeg(e.path[k]) \/ (IsIdxSeg(e.path[k]) /\ e.path[k].i >= 0))
  /\ e.extIsMap
RECURSIVE ValueOK(_)
ValueOK(v) == IF IsObj(v) THEN KeysDistinct(v) /\ \A k \in 1..Len(v.kv) : ValueOK(v.kv[k][2])
              ELSE IF IsList(v) THEN \A k \in 1..Len(v.v) : ValueOK(v.v[k])
              ELSE v.t \in {"null", "b", "i", "I", "f", "s", "S"}
\* an error path leads to a position that exists in data, or runs into a null on the way
PathOK(r, e) == ~e.hasPath \/ ~r.hasData \/ LET w == Walk(r.data, e.path) IN w.found
Clause(r) ==
  IF r.hasErrors /\ r.errors = <<>> THEN "errors-present-but-empty"
  ELSE IF r.hasErrors /\ \E k \in 1..Len(r.errors) : ~ErrorOK(r.errors[k]) THEN "error-entry-malformed"
  ELSE IF ~r.hasErrors /\ ~r.hasData THEN "neither-data-nor-errors"
  ELSE IF r.hasData /\ IsNull(r.data) /\ ~r.hasErrors THEN "null-data-without-errors"
  ELSE IF r.stage # "execute" /\ ~(r.hasErrors /\ (~r.hasData \/ IsNull(r.data))) THEN "data-before-execution"
  ELSE IF r.hasData /\ ~IsNull(r.data) /\ ~(IsObj(r.data) /\ ValueOK(r.data)) THEN "data-not-a-json-map"
  ELSE IF r.hasErrors /\ \E k \in 1..Len(r.errors) : ~PathOK(r, r.errors[k]) THEN "error-path-not-in-data"
  ELSE "ok"
=============================================================================
