---------------------------- MODULE SchemaAlgebra ----------------------------
(* P-spec for C19: the specified effect of schema transformations on abstract *)
(* schemas.                                                                    *)
(*  ApplyExt(S, E): extending a schema appends, in document order after the    *)
(*    existing entries, the new fields / interfaces / union members / enum     *)
(*    values / input fields of each extended type, the new types, the new      *)
(*    directives and the new root operation types; nothing else changes.       *)
(*  Unordered(S): the schema with every ordered collection read as a set -     *)
(*    sorting a schema may change order only.                                  *)
(* E: [ext: Seq([name, fields, interfaces, members, values, inputFields,      *)
(*               specifiedBy]),                                                 *)
(*     newTypes: Seq(type), newDirectives: Seq(directive), query, mutation,    *)
(*     subscription: name or ""]                                               *)
EXTENDS SchemaValid

RECURSIVE ApplyAll(_, _)
ApplyAll(t, exts) ==
  IF exts = <<>> THEN t
  ELSE LET x == Head(exts) IN
       ApplyAll(IF x.name = t.name
                THEN [t EXCEPT !.fields = @ \o x.fields, !.interfaces = @ \o x.interfaces, !.members = @ \o x.members,
                               !.values = @ \o x.values, !.inputFields = @ \o x.inputFields,
                               \* a scalar extension that carries @specifiedBy sets the url; the others leave it as it is
                               !.specifiedBy = IF x.specifiedBy.p THEN x.specifiedBy ELSE @]
                ELSE t, Tail(exts))

ApplyExt(S, E) ==
  [S EXCEPT !.types = [i \in 1..Len(S.types) |-> ApplyAll(S.types[i], E.ext)] \o E.newTypes,
            !.directives = @ \o E.newDirectives,
            !.query = IF E.query # "" THEN E.query ELSE @,
            !.mutation = IF E.mutation # "" THEN E.mutation ELSE @,
            !.subscription = IF E.subscription # "" THEN E.subscription ELSE @]

\* ---- order-insensitive reading ----------------------------------------------------------
UIV(ivs) == {ivs[i] : i \in 1..Len(ivs)}
UField(f) == [name |-> f.name, type |-> f.type, description |-> f.description, deprecation |-> f.deprecation, args |-> UIV(f.args)]
UType(t) == [kind |-> t.kind, name |-> t.name, description |-> t.description, specifiedBy |-> t.specifiedBy, oneOf |-> t.oneOf,
             fields |-> {UField(t.fields[i]) : i \in 1..Len(t.fields)}, interfaces |-> SeqSet(t.interfaces), members |-> SeqSet(t.members),
             values |-> SeqSet(t.values), inputFields |-> UIV(t.inputFields)]
UDirective(d) == [name |-> d.name, description |-> d.description, locations |-> SeqSet(d.locations), repeatable |-> d.repeatable, args |-> UIV(d.args)]
Unordered(S) == [description |-> S.description, query |-> S.query, mutation |-> S.mutation, subscription |-> S.subscription,
                 types |-> {UType(S.types[i]) : i \in 1..Len(S.types)}, directives |-> {UDirective(S.directives[i]) : i \in 1..Len(S.directives)}]
=============================================================================
