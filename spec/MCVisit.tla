------------------------------- MODULE MCVisit -------------------------------
(* M + G for C11: every tree of a small family (real node kinds and field names,*)
(* so that the harness can instantiate real node objects) x every visitor       *)
(* program with at most two decision points (phase x node x decision, the root  *)
(* included; replacement = a fresh name node).                                  *)
(*  M: LoopVisit (the implementation's loop, VisitLoop.tla) = RefVisit (the      *)
(*     contract, VisitContract.tla) on every pair.                               *)
(*  G: each pair is emitted with RefVisit's call log / outcome / result shape    *)
(*     and replayed on the real visit().                                         *)
EXTENDS VisitLoop, Json
CONSTANT MaxPoints

Name(i) == [id |-> i, kind |-> "name", fields |-> <<>>]
Fld(i, aliasId, nameId, sub) ==
  [id |-> i, kind |-> "field",
   fields |-> << [name |-> "alias", many |-> FALSE, kids |-> IF aliasId = 0 THEN <<>> ELSE <<Name(aliasId)>>],
                 [name |-> "name", many |-> FALSE, kids |-> <<Name(nameId)>>],
                 [name |-> "arguments", many |-> TRUE, kids |-> <<>>],
                 [name |-> "directives", many |-> TRUE, kids |-> <<>>],
                 [name |-> "selection_set", many |-> FALSE, kids |-> sub] >>]
SelSet(i, sels) == [id |-> i, kind |-> "selection_set", fields |-> << [name |-> "selections", many |-> TRUE, kids |-> sels] >>]
Op(i, nameId, ss) ==
  [id |-> i, kind |-> "operation_definition",
   fields |-> << [name |-> "description", many |-> FALSE, kids |-> <<>>],
                 [name |-> "name", many |-> FALSE, kids |-> IF nameId = 0 THEN <<>> ELSE <<Name(nameId)>>],
                 [name |-> "variable_definitions", many |-> TRUE, kids |-> <<>>],
                 [name |-> "directives", many |-> TRUE, kids |-> <<>>],
                 [name |-> "selection_set", many |-> FALSE, kids |-> <<ss>>] >>]
Doc(defs) == [id |-> 1, kind |-> "document", fields |-> << [name |-> "definitions", many |-> TRUE, kids |-> defs] >>]

\* ids are assigned in document (pre-)order
Trees == {
  \* query Q { a }
  Doc(<< Op(2, 3, SelSet(4, << Fld(5, 0, 6, <<>>) >>)) >>),
  \* { x: a b }
  Doc(<< Op(2, 0, SelSet(3, << Fld(4, 5, 6, <<>>), Fld(7, 0, 8, <<>>) >>)) >>),
  \* { a { b } }
  Doc(<< Op(2, 0, SelSet(3, << Fld(4, 0, 5, << SelSet(6, << Fld(7, 0, 8, <<>>) >>) >>) >>)) >>),
  \* { a }  { b }   (two operations)
  Doc(<< Op(2, 0, SelSet(3, << Fld(4, 0, 5, <<>>) >>)), Op(6, 0, SelSet(7, << Fld(8, 0, 9, <<>>) >>)) >>),
  \* { a b c }
  Doc(<< Op(2, 0, SelSet(3, << Fld(4, 0, 5, <<>>), Fld(6, 0, 7, <<>>), Fld(8, 0, 9, <<>>) >>)) >>),
  \* roots other than a document (visit() accepts any node): their children are single-valued fields
  \* the field  x: a { b }
  Fld(1, 2, 3, << SelSet(4, << Fld(5, 0, 6, <<>>) >>) >>),
  \* the operation  query Q { a }
  Op(1, 2, SelSet(3, << Fld(4, 0, 5, <<>>) >>))
}
RECURSIVE Ids(_)
Ids(n) == {n.id} \cup UNION { UNION { Ids(n.fields[i].kids[j]) : j \in 1..Len(n.fields[i].kids) } : i \in 1..Len(n.fields) }
Rep(k) == [id |-> 900000 + k, kind |-> "name", fields |-> <<>>]
\* a replacement of another kind with children of its own: the field  REPLa: REPLn
RepF(k) == Fld(900000 + 100 * k, 900000 + 100 * k + 1, 900000 + 100 * k + 2, <<>>)
Points(t) == {[ph |-> ph, id |-> i, d |-> d] : ph \in {"enter", "leave"}, i \in Ids(t), d \in {"skip", "break", "remove", "replace", "replacef"}}
                \ {[ph |-> "leave", id |-> i, d |-> "skip"] : i \in Ids(t)}          \* SKIP from leave is not part of the contract
Mk(pt, k) == [ph |-> pt.ph, id |-> pt.id, d |-> IF pt.d = "replacef" THEN "replace" ELSE pt.d,
              rep |-> IF pt.d = "replace" THEN Rep(k) ELSE IF pt.d = "replacef" THEN RepF(k) ELSE NoRep]

VARIABLES tree, prog
Init == /\ tree \in Trees
        /\ \/ prog = <<>>
           \/ \E p \in Points(tree) : prog = << Mk(p, 1) >>
           \/ (MaxPoints >= 2 /\ \E p, q \in Points(tree) : (p.ph # q.ph \/ p.id # q.id) /\ prog = << Mk(p, 1), Mk(q, 2) >>)
Next == UNCHANGED <<tree, prog>>
Refines == LET l == LoopVisit(tree, prog) r == RefVisit(tree, prog) IN
           /\ l.log = r.log
           /\ l.outcome = r.outcome
           /\ (r.outcome = "edited" => l.result = r.result)
Emit == PrintT(ToJson([tree |-> tree, prog |-> prog, want |-> RefVisit(tree, prog)]))
=============================================================================
