------------------------------ MODULE SettledV ------------------------------
EXTENDS Settled, Json, IOUtils
Cases == JsonDeserialize(IOEnv.CASES)
VARIABLE i
Init == i \in 1..Len(Cases)
Next == UNCHANGED i
Check == LET cl == Clause(Cases[i]) dr == Drift(Cases[i]) IN
         /\ cl = "ok" \/ PrintT(ToJson([viol |-> i, clause |-> cl]))
         /\ dr = "ok" \/ PrintT(ToJson([viol |-> i, clause |-> dr]))
=============================================================================
