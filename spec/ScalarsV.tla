------------------------------ MODULE ScalarsV ------------------------------
EXTENDS Scalars, Json, IOUtils
Cases == JsonDeserialize(IOEnv.CASES)
VARIABLE i
Init == i \in 1..Len(Cases)
Next == UNCHANGED i
Check == LET c == Cases[i] cl == Clause(c) IN
         /\ cl = "ok" \/ PrintT(ToJson([viol |-> i, clause |-> cl]))
         /\ (c.err \/ ~TextIntegerRounded(c.type, c.in, c.out)) \/ PrintT(ToJson([viol |-> i, clause |-> "drift-integer-text-rounded-by-Float"]))
=============================================================================
