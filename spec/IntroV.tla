------------------------------- MODULE IntroV -------------------------------
(* V direction for C18: [schema, full, results: Seq([opts, result])]          *)
EXTENDS Introspect, Json, IOUtils
Cases == JsonDeserialize(IOEnv.CASES)
VARIABLE i
Init == i \in 1..Len(Cases)
Next == UNCHANGED i
CanonType(t) == [t EXCEPT !.possibleTypes = IF @ = Nul THEN Nul ELSE [set |-> SeqSet(@.list)]]
CanonDirective(d) == [d EXCEPT !.locations = SeqSet(@)]
UserTypes(S, full) == {CanonType(full.types[k]) : k \in {j \in 1..Len(full.types) : full.types[j].name \in TypeNames(S)}}
UserDirectives(S, full) == {CanonDirective(full.directives[k]) : k \in {j \in 1..Len(full.directives) :
                              \E d \in 1..Len(S.directives) : S.directives[d].name = full.directives[j].name}}
Clause(c) ==
  LET g == IntroGraph(c.schema) IN
  IF \E k \in 1..Len(c.results) : c.results[k].result # Project(c.full, c.results[k].opts) THEN "option-result-differs-from-projection-of-full-result"
  ELSE IF ~SelfContained(c.full) THEN "result-refers-to-a-type-it-does-not-list"
  ELSE IF UserTypes(c.schema, c.full) # g.types THEN "types-differ-from-IntroGraph"
  ELSE IF UserDirectives(c.schema, c.full) # g.directives THEN "directives-differ-from-IntroGraph"
  ELSE IF c.full.queryType # g.queryType \/ c.full.mutationType # g.mutationType \/ c.full.subscriptionType # g.subscriptionType THEN "root-types-differ-from-IntroGraph"
  ELSE IF c.full.description # g.description THEN "schema-description-differs-from-IntroGraph"
  ELSE "ok"
WhichOption(c) == IF \E k \in 1..Len(c.results) : c.results[k].result # Project(c.full, c.results[k].opts)
                  THEN (CHOOSE k \in 1..Len(c.results) : c.results[k].result # Project(c.full, c.results[k].opts)) ELSE 0
DiffTypes(c) == IF ~SelfContained(c.full) THEN Referenced(c.full) \ Listed(c.full) ELSE {t.name : t \in (UserTypes(c.schema, c.full) \ IntroGraph(c.schema).types) \cup (IntroGraph(c.schema).types \ UserTypes(c.schema, c.full))}
Check == LET c == Cases[i] cl == Clause(c) IN cl = "ok" \/ PrintT(ToJson([viol |-> i, clause |-> cl, which |-> WhichOption(c), types |-> DiffTypes(c)]))
=============================================================================
