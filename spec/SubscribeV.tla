----------------------------- MODULE SubscribeV -----------------------------
(* P-spec + V direction for C07: one recorded run of subscribe() evaluated     *)
(* against the contract                                                        *)
(*  S1 one response per consumed source event, in source order;                *)
(*  S2 each response = Execute(operation selection set, root := event)         *)
(*     (Execute.tla, with fresh collected errors per event - S6);              *)
(*  S3 a failure while creating the source yields a single errors-only         *)
(*     response and no stream;                                                 *)
(*  S4 an exception raised by the source after k events surfaces to the        *)
(*     consumer on the pull after the k-th response;                           *)
(*  S5 the response stream ends exactly when the source ends.                  *)
(* record: [schema, doc, vars, events, creation: "ok"|"raise"|"noniter",        *)
(*          sourceFails: BOOLEAN, single: response, hasSingle: BOOLEAN,         *)
(*          pulls: Seq([k: "result"|"end"|"raised", response])]                 *)
EXTENDS Execute, Json, IOUtils
Cases == JsonDeserialize(IOEnv.CASES)
VARIABLE i
Init == i \in 1..Len(Cases)
Next == UNCHANGED i

EventResponseOK(c, k, resp) ==
  LET r == Execute([schema |-> c.schema, doc |-> c.doc, vars |-> c.vars, root |-> c.events[k], noIncr |-> TRUE]) IN
  /\ ~r.requestError
  /\ r.data = resp.data
  \* per-event execution may be asynchronous: errors below an already nulled position depend on timing,
  \* the nulled positions do not
  /\ NulledPositions([data |-> r.data, errors |-> r.errors]) = NulledPositions(resp)

ResultIdx(c) == {p \in 1..Len(c.pulls) : c.pulls[p].k = "result"}
Clause(c) ==
  IF c.creation # "ok" THEN
     (IF ~c.hasSingle THEN "S3-no-errors-only-response"
      ELSE IF c.single.data # Null \/ c.single.errors = <<>> THEN "S3-response-not-errors-only"
      ELSE IF c.pulls # <<>> THEN "S3-stream-after-creation-failure" ELSE "ok")
  ELSE IF c.hasSingle THEN "S3-single-response-although-source-created"
  ELSE LET n == Len(c.events) np == Len(c.pulls) IN
       \* results come first, in order, at most one per event
       IF \E p \in 1..np : c.pulls[p].k = "result" /\ p > n THEN "S1-more-responses-than-events"
       ELSE IF \E p \in 1..np : p <= n /\ c.pulls[p].k # "result" THEN "S1-event-dropped-or-stream-ended-early"
       ELSE IF \E p \in 1..np : p <= n /\ ~EventResponseOK(c, p, c.pulls[p].response) THEN "S2-response-differs-from-Execute"
       ELSE IF np > n /\ c.sourceFails /\ c.pulls[n + 1].k # "raised" THEN "S4-source-failure-not-surfaced"
       ELSE IF np > n /\ ~c.sourceFails /\ c.pulls[n + 1].k # "end" THEN "S5-stream-did-not-end-with-source"
       ELSE IF np > n + 1 /\ \E p \in (n + 2)..np : c.pulls[p].k # "end" THEN "S5-activity-after-the-end"
       ELSE "ok"
Check == LET cl == Clause(Cases[i]) IN cl = "ok" \/ PrintT(ToJson([viol |-> i, clause |-> cl]))
=============================================================================
