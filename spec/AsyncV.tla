------------------------------- MODULE AsyncV -------------------------------
(* V direction for C03: the response of an asynchronous execution under one   *)
(* explored completion order, evaluated against                                *)
(*  - the specification's algorithm (Execute.tla): same data, same set of      *)
(*    nulled positions / error paths;                                          *)
(*  - the fully synchronous execution of the same request (SameOutcome);       *)
(*  - well-formedness: every error path ends at or below a null in data, data  *)
(*    is null only if an error reached the root;                               *)
(*  - seriality of top-level mutation fields: in the interleaved log of        *)
(*    resolver calls and gate completions the index of the root field never    *)
(*    decreases.                                                               *)
EXTENDS Execute, Json, IOUtils
Cases == JsonDeserialize(IOEnv.CASES)
VARIABLE i
Init == i \in 1..Len(Cases)
Next == UNCHANGED i

ErrorUnderNull(data, e) == LET w == W!Walk(data, e) IN w.found /\ (w.stoppedAtNull \/ w.v = Null)
WellFormed(resp) ==
  /\ \A k \in 1..Len(resp.errors) : ErrorUnderNull(resp.data, resp.errors[k])
  /\ (resp.data = Null => resp.errors # <<>>)
SameOutcome(a, b) == a.data = b.data /\ NulledPositions(a) = NulledPositions(b)

RootKeys(c) == LET R == [schema |-> c.schema, doc |-> c.doc, vals |-> CoerceVars(c.schema, c.doc.vardefs, c.vars, <<>>).vals, wd |-> {}, noIncr |-> FALSE]
               IN Keys(Collect(R, c.doc.sel, c.schema.query), {})
Idx(keys, k) == IF \E j \in 1..Len(keys) : keys[j] = k THEN CHOOSE j \in 1..Len(keys) : keys[j] = k ELSE 0
\* c.log: entries [r, e, at, rat] recorded when a resolver (at position rat) below root field r was invoked while a resolver / list
\* awaitable at response position `at` below another root field e was still pending and not cancelled. Serial
\* execution forbids this - unless that awaitable, or the invoked resolver, is orphaned work: its position lies at or below a position that
\* is null in the response (a failed subtree whose siblings are settled in the background).
\* (Awaitable is_type_of / resolve_type results are not recorded: the default type resolver legitimately leaves
\* the checks of the remaining possible types running once one type matched.)
Orphaned(c, at) == c.response.data = Null \/ LET w == W!Walk(c.response.data, at) IN ~w.found \/ w.stoppedAtNull \/ w.v = Null
\* Entries with cw = TRUE: a resolver coroutine below root field e had been CANCELLED (by a failed sibling) but had not finished
\* unwinding when the resolver at rat was invoked. A failed field waits for the siblings it cancels (gather_with_cancel), so
\* the next root field never starts over such a coroutine - orphaned or not.
SerialOK(c) == \A p \in 1..Len(c.log) :
                  c.log[p].r = c.log[p].e \/ (~c.log[p].cw /\ (Orphaned(c, c.log[p].at) \/ Orphaned(c, c.log[p].rat)))

Clause(c) ==
  LET r == Execute(c) IN
  IF r.requestError # c.response.requestError THEN "request-error-differs"
  ELSE IF r.requestError THEN "ok"
  ELSE IF ~SameOutcome(c.response, c.sync) THEN "async-differs-from-sync"
  ELSE IF r.data # c.response.data THEN "data-differs-from-specification"
  ELSE IF NulledPositions([data |-> r.data, errors |-> r.errors]) # NulledPositions(c.response) THEN "nulled-positions-differ-from-specification"
  ELSE IF ~WellFormed(c.response) THEN "not-well-formed"
  ELSE IF c.serial /\ ~SerialOK(c) THEN "mutation-fields-not-serial"
  \* asynchronous execution does not short-circuit siblings of a failed field, so it may make calls the
  \* specification's (short-circuiting) evaluation does not reach; where both call a position the arguments agree
  ELSE IF \E k \in 1..Len(c.calls) : \E j \in 1..Len(r.calls) : r.calls[j].path = c.calls[k].path /\ r.calls[j].args # c.calls[k].args THEN "resolver-arguments-differ"
  ELSE "ok"
Check == LET c == Cases[i] cl == Clause(c) IN cl = "ok" \/ PrintT(ToJson([viol |-> i, clause |-> cl]))
=============================================================================
