------------------------------ MODULE Settled ------------------------------
(* P-spec for C06: what must hold at the quiescent point after the consumer   *)
(* stopped (or the run completed), once the environment has completed every   *)
(* external operation (gate) that the execution did not cancel.               *)
(*                                                                             *)
(* observation: [stop, hang, callerWaiting, callerOutcome, pendingTasks,       *)
(*   sources: Seq([started, exhausted, aclose]), hookCalls, trackedAtHook,     *)
(*   incremental, uncancelledAtStop]                                           *)
(*   stop          - "none" | "close" | "close-before-first-pull" |            *)
(*                   "abort-before-initial-result" | "abort-idle" |            *)
(*                   "abort-during-pull"                                       *)
(*   callerOutcome - what the last awaiting caller received: "result" |        *)
(*                   "payload" | "end" | "abort-reason" | "other-exception"    *)
EXTENDS Naturals, Sequences, TLC

AbortStops == {"abort-before-initial-result", "abort-idle", "abort-during-pull"}

\* L1: the awaiting caller is released, with the result or with the abort reason
L1(o) == /\ ~o.callerWaiting
         /\ (o.stop \in AbortStops => o.callerOutcome = "abort-reason")
         /\ (o.stop \notin AbortStops => o.callerOutcome \in {"result", "payload", "end"})
\* L2: quiescence is reached and nothing started by the execution is still pending
L2(o) == ~o.hang /\ o.pendingTasks = 0
\* L2s (reported as MODEL-DRIFT only): at the quiescent point right after the stop - before the environment completes
\*      anything - the execution awaits no external operation any more.  Work that the library settles in the
\*      background by design (orphans of a failed sibling) is not cancelled by a stop, so this is not demanded.
StopsThatCancel == {"close", "abort-idle", "abort-during-pull"}
L2s(o) == o.stop \in StopsThatCancel => o.uncancelledAtStop = 0
\* L3: every source that was started is finished exactly once: it ran to exhaustion, or aclose() was
\*     called - and aclose() is never called twice (closing an exhausted iterator once is harmless)
L3(o) == \A k \in 1..Len(o.sources) :
           LET s == o.sources[k] IN s.started => s.aclose <= 1 /\ (s.exhausted \/ s.aclose = 1)
L3NeverStarted(o) == \A k \in 1..Len(o.sources) : LET s == o.sources[k] IN ~s.started => s.aclose = 0
\* L4: the work-finished hook fires exactly once, and no tracked work is pending when it fires
L4(o) == o.hookCalls = 1 /\ o.trackedAtHook = 0

Clause(o) ==
  IF ~L2(o) THEN (IF o.hang THEN "L2-no-quiescence" ELSE "L2-task-still-pending")
  ELSE IF ~L1(o) THEN (IF o.callerWaiting THEN "L1-caller-not-released" ELSE "L1-caller-got-wrong-outcome")
  ELSE IF ~L3(o) THEN (IF \E k \in 1..Len(o.sources) : o.sources[k].started /\ o.sources[k].aclose > 1
                       THEN "L3-source-closed-twice"
                       ELSE "L3-started-source-not-closed")
  ELSE IF ~L4(o) THEN (IF o.hookCalls = 0 THEN "L4-hook-never-fired" ELSE IF o.hookCalls > 1 THEN "L4-hook-fired-twice" ELSE "L4-hook-before-tracked-work-settled")
  ELSE "ok"
Drift(o) == IF ~L2s(o) THEN "drift-awaited-operation-not-cancelled-by-the-stop" ELSE "ok"
=============================================================================
