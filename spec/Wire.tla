-------------------------------- MODULE Wire --------------------------------
(* Helper operators over the tagged wire values of DESIGN 3.2.              *)
(* values: [t |-> "null"] | [t |-> "b", v] | [t |-> "i", v] | [t |-> "s", v] | *)
(*         [t |-> "l", v |-> Seq(value)] | [t |-> "o", kv |-> Seq(<<key, value>>)] ... *)
EXTENDS Naturals, Sequences, FiniteSets
Null == [t |-> "null"]
IsNull(v) == v.t = "null"
IsObj(v) == v.t = "o"
IsList(v) == v.t = "l"
ObjKeys(v) == [k \in 1..Len(v.kv) |-> v.kv[k][1]]
ObjHas(v, key) == \E k \in 1..Len(v.kv) : v.kv[k][1] = key
ObjGet(v, key) == v.kv[CHOOSE k \in 1..Len(v.kv) : v.kv[k][1] = key][2]
KeysDistinct(v) == \A a, b \in 1..Len(v.kv) : v.kv[a][1] = v.kv[b][1] => a = b
IsKeySeg(p) == "s" \in DOMAIN p
IsIdxSeg(p) == "i" \in DOMAIN p
\* walk a path; result [found, v]; stops (found with Null) when a null is met on the way
RECURSIVE Walk(_, _)
Walk(v, path) ==
  IF path = <<>> THEN [found |-> TRUE, stoppedAtNull |-> FALSE, v |-> v]
  ELSE IF IsNull(v) THEN [found |-> TRUE, stoppedAtNull |-> TRUE, v |-> v]
  ELSE LET p == Head(path) IN
       IF IsKeySeg(p) /\ IsObj(v) /\ ObjHas(v, p.s) THEN Walk(ObjGet(v, p.s), Tail(path))
       ELSE IF IsIdxSeg(p) /\ IsList(v) /\ p.i + 1 <= Len(v.v) THEN Walk(v.v[p.i + 1], Tail(path))
       ELSE [found |-> FALSE, stoppedAtNull |-> FALSE, v |-> v]
=============================================================================
