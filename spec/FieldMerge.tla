----------------------------- MODULE FieldMerge -----------------------------
(* P-spec for C14: FieldsInSetCanMerge / SameResponseShape of the GraphQL      *)
(* specification (section 5.3.2), un-optimised, with a coinductive cycle guard *)
(* (a pair of selection-set lists already being compared is assumed mergeable, *)
(* which makes the definition total on cyclic fragment spreads).               *)
EXTENDS Naturals, Sequences, FiniteSets, TLC

CONSTANT MetaFieldsTyped   \* TRUE: __typename has type String! as the specification says; FALSE mimics an
                           \* implementation that finds no definition for meta fields (finding F9)
Kind(S, n) == S.types[n].kind
IsLeafName(S, n) == Kind(S, n) \in {"SCALAR", "ENUM"}
TypenameType == <<"NN", <<"N", "String">>>>
FieldType(S, parent, name) ==
  IF name = "__typename" THEN (IF MetaFieldsTyped THEN TypenameType ELSE <<"?">>)
  ELSE IF name \in DOMAIN S.types[parent].fields THEN S.types[parent].fields[name] ELSE <<"?">>
RECURSIVE NamedOf(_)
NamedOf(ty) == IF ty[1] = "N" THEN ty[2] ELSE IF ty[1] = "?" THEN "?" ELSE NamedOf(ty[2])
Key(f) == IF f.alias = "" THEN f.name ELSE f.alias

\* ---- field collection, visiting inline fragments and fragment spreads once ----
RECURSIVE Coll(_, _, _, _, _)
Coll(S, D, items, parent, st) ==      \* st = [fs: Seq([parent, f]), vis: set of fragment names]
  IF items = <<>> THEN st
  ELSE LET h == Head(items)
           st1 == CASE h.k = "F" -> [st EXCEPT !.fs = Append(@, [parent |-> parent, f |-> h])]
                    [] h.k = "I" -> Coll(S, D, h.sel.items, IF h.on = "" THEN parent ELSE h.on, st)
                    [] h.k = "S" -> IF h.name \in st.vis \/ h.name \notin DOMAIN D.frags THEN st
                                    ELSE Coll(S, D, D.frags[h.name].sel.items, D.frags[h.name].on,
                                              [st EXCEPT !.vis = @ \cup {h.name}])
       IN Coll(S, D, Tail(items), parent, st1)

RECURSIVE CollSets(_, _, _, _)
CollSets(S, D, sets, st) ==           \* sets: Seq([ss, parent])
  IF sets = <<>> THEN st ELSE CollSets(S, D, Tail(sets), Coll(S, D, Head(sets).ss.items, Head(sets).parent, st))
FieldsOf(S, D, sets) == CollSets(S, D, sets, [fs |-> <<>>, vis |-> {}]).fs
SetsKey(sets) == {<<sets[i].ss.id, sets[i].parent>> : i \in 1..Len(sets)}

SubSets(S, a, b) ==    \* the merged set of two fields' selection sets
  << [ss |-> a.f.sel, parent |-> NamedOf(FieldType(S, a.parent, a.f.name))],
     [ss |-> b.f.sel, parent |-> NamedOf(FieldType(S, b.parent, b.f.name))] >>

\* ---- SameResponseShape ------------------------------------------------------
RECURSIVE Unwrap(_, _, _)
Unwrap(S, ta, tb) ==   \* <<"!","!">> (conflict) or the pair of named types
  IF ta[1] = "?" \/ tb[1] = "?" THEN <<"?", "?">>          \* unknown field: nothing to compare
  ELSE IF ta[1] = "NN" \/ tb[1] = "NN" THEN (IF ta[1] = "NN" /\ tb[1] = "NN" THEN Unwrap(S, ta[2], tb[2]) ELSE <<"!", "!">>)
  ELSE IF ta[1] = "L" \/ tb[1] = "L" THEN (IF ta[1] = "L" /\ tb[1] = "L" THEN Unwrap(S, ta[2], tb[2]) ELSE <<"!", "!">>)
  ELSE <<ta[2], tb[2]>>

RECURSIVE SameShape(_, _, _, _, _), ShapeSet(_, _, _, _)
SameShape(S, D, a, b, seen) ==
  LET u == Unwrap(S, FieldType(S, a.parent, a.f.name), FieldType(S, b.parent, b.f.name)) IN
  IF u[1] = "!" THEN FALSE
  ELSE IF u[1] = "?" THEN TRUE
  ELSE IF IsLeafName(S, u[1]) \/ IsLeafName(S, u[2]) THEN u[1] = u[2]
  ELSE ShapeSet(S, D, SubSets(S, a, b), seen)
ShapeSet(S, D, sets, seen) ==
  LET key == SetsKey(sets) IN
  IF key \in seen THEN TRUE
  ELSE LET fs == FieldsOf(S, D, sets) IN
       \A i, j \in 1..Len(fs) : (i < j /\ Key(fs[i].f) = Key(fs[j].f)) => SameShape(S, D, fs[i], fs[j], seen \cup {key})

\* ---- FieldsInSetCanMerge ----------------------------------------------------
RECURSIVE CanMerge(_, _, _, _)
CanMerge(S, D, sets, seen) ==
  LET key == SetsKey(sets) IN
  IF key \in seen THEN TRUE
  ELSE LET fs == FieldsOf(S, D, sets) IN
       \A i, j \in 1..Len(fs) : (i < j /\ Key(fs[i].f) = Key(fs[j].f)) =>
          LET a == fs[i]  b == fs[j]
              bothObjectsAndDifferent == a.parent # b.parent /\ Kind(S, a.parent) = "OBJECT" /\ Kind(S, b.parent) = "OBJECT"
          IN /\ SameShape(S, D, a, b, {})
             /\ (~bothObjectsAndDifferent =>
                   /\ a.f.name = b.f.name
                   /\ a.f.args = b.f.args
                   /\ CanMerge(S, D, SubSets(S, a, b), seen \cup {key}))

\* ---- every selection set of the document, with its parent type ---------------
RECURSIVE AllSets(_, _, _)
AllSets(S, ss, parent) ==
  {[ss |-> ss, parent |-> parent]} \cup
  UNION { LET h == ss.items[i] IN
          CASE h.k = "F" -> IF h.sel.items = <<>> THEN {} ELSE AllSets(S, h.sel, NamedOf(FieldType(S, parent, h.name)))
            [] h.k = "I" -> AllSets(S, h.sel, IF h.on = "" THEN parent ELSE h.on)
            [] h.k = "S" -> {}
          : i \in 1..Len(ss.items) }
DocSets(S, D) == AllSets(S, D.root, S.query) \cup UNION {AllSets(S, D.frags[n].sel, D.frags[n].on) : n \in DOMAIN D.frags}
SpecConflict(S, D) == \E s \in DocSets(S, D) : s.parent # "?" /\ ~CanMerge(S, D, <<s>>, {})
=============================================================================
