----------------------------- MODULE DeliveryV -----------------------------
(* V direction for C04/C05: recorded payload sequences of real runs (end to   *)
(* end through experimental_execute_incrementally, or the real WorkQueue +    *)
(* IncrementalPublisher driven directly) evaluated against Delivery.tla.       *)
EXTENDS Delivery, Json, IOUtils
Cases == JsonDeserialize(IOEnv.CASES)
VARIABLE i
Init == i \in 1..Len(Cases)
Next == UNCHANGED i
Check ==
  LET tr == Cases[i] pc == ProtocolClause(tr) ac == AssemblyClause(tr) IN
  /\ pc = "ok" \/ PrintT(ToJson([viol |-> i, clause |-> pc, prop |-> "C05"]))
  /\ ac = "ok" \/ PrintT(ToJson([viol |-> i, clause |-> ac, prop |-> "C04"]))
  /\ ~DupDelivered(tr) \/ PrintT(ToJson([viol |-> i, clause |-> "drift-field-delivered-twice", prop |-> "drift"]))
=============================================================================
