------------------------------- MODULE Coerce -------------------------------
(* P-spec for C15: what a successfully coerced input value must look like      *)
(* (specification section 3, "Input Coercion" of each type; 3.10 input objects,*)
(* OneOf): Conforms(S, v, ty).                                                  *)
(* v is the tagged encoding of the coerced (internal) value:                   *)
(*  [t |-> "null"] | [t |-> "b"] | [t |-> "i", v] (an integer within 32 bits)  *)
(*  | [t |-> "I"] (an integer outside 32 bits) | [t |-> "f", cls] | [t |-> "s"]*)
(*  | [t |-> "l", v |-> Seq] | [t |-> "o", kv |-> Seq(<<key, value>>)]         *)
(*  | [t |-> "undef"] | [t |-> "other"]                                        *)
EXTENDS SchemaValid

RECURSIVE Conforms(_, _, _)
Conforms(S, v, ty) ==
  IF IsNN(ty) THEN v.t # "null" /\ Conforms(S, v, ty[2])
  ELSE IF v.t = "null" THEN TRUE
  ELSE IF ty[1] = "L" THEN v.t = "l" /\ \A i \in 1..Len(v.v) : Conforms(S, v.v[i], ty[2])
  ELSE LET n == ty[2] k == Kind(S, n) IN
       IF n = "Int" THEN v.t = "i"                                   \* 32-bit integer, not a boolean
       ELSE IF n = "Float" THEN (v.t = "i" \/ v.t = "I" \/ (v.t = "f" /\ v.cls = "fin"))   \* a finite number
       ELSE IF n = "String" THEN v.t = "s"
       ELSE IF n = "Boolean" THEN v.t = "b"
       ELSE IF n = "ID" THEN v.t = "s"
       ELSE IF k = "SCALAR" THEN v.t # "undef"
       ELSE IF k = "ENUM" THEN v.t = "s" /\ \E i \in 1..Len(T(S, n).values) : T(S, n).values[i].name = v.v
       ELSE IF k = "INPUT_OBJECT" THEN
            LET d == T(S, n) fs == d.inputFields IN
            /\ v.t = "o"
            /\ \A a, b \in 1..Len(v.kv) : v.kv[a][1] = v.kv[b][1] => a = b
            \* exactly the declared fields: nothing undeclared, every field with a default present, every required field present
            /\ KeysOf(v) \subseteq {fs[i].name : i \in 1..Len(fs)}
            /\ \A i \in 1..Len(fs) : (fs[i].hasDefault \/ Required(fs[i])) => fs[i].name \in KeysOf(v)
            /\ \A j \in 1..Len(v.kv) : LET f == fs[CHOOSE i \in 1..Len(fs) : fs[i].name = v.kv[j][1]] IN Conforms(S, v.kv[j][2], f.type)
            /\ (d.oneOf => Len(v.kv) = 1 /\ v.kv[1][2].t # "null")
       ELSE FALSE
=============================================================================
