----------------------------- MODULE FieldMergeV -----------------------------
(* V direction for C14: (schema, document, did the real rule report a conflict) *)
EXTENDS FieldMerge, Json, IOUtils
Cases == JsonDeserialize(IOEnv.CASES)
VARIABLE i
Init == i \in 1..Len(Cases)
Next == UNCHANGED i
Check == LET c == Cases[i] sc == SpecConflict(c.schema, c.doc) IN
         sc = c.reported \/ PrintT(ToJson([viol |-> i, clause |-> IF sc THEN "conflict-not-reported" ELSE "reported-without-conflict"]))
=============================================================================
