----------------------------- MODULE MCAsyncExec -----------------------------
(* M and V for AsyncExec.tla over a batch of requests (JSON, IOEnv.CASES).        *)
(*  M (INIT Init / NEXT Next): every order in which the environment can complete  *)
(*    the gates of every request of the batch; the invariants of AsyncExec.tla    *)
(*    hold in every reachable state - in particular Confluence with Execute.tla.  *)
(*  V (INIT Init / NEXT Stutter, invariant TraceOK): each record carries the      *)
(*    orders the harness executed on the real executor, with the set of pending   *)
(*    gates after every step, the step after which the response was available     *)
(*    and the response's nulled positions; they must be the model's.              *)
(* record: [schema, doc, vars, root, gate, serial,                                *)
(*          runs: Seq([steps: Seq([g: path, pending: Seq(path)]),                  *)
(*                     initial: Seq(path), readyAfter: Nat, nulled: Seq(path)])]  *)
EXTENDS AsyncExec, Json, IOUtils
Cases == JsonDeserialize(IOEnv.CASES)
Trees == [k \in 1..Len(Cases) |-> TreeOf(Cases[k])]
Specs == [k \in 1..Len(Cases) |-> Execute(Cases[k])]

VARIABLES i, S
vars == <<i, S>>
Init == /\ i \in 1..Len(Cases)
        /\ S = Start(Trees[i], Cases[i].gate, Cases[i].serial)
Next == /\ \E g \in Pending(S) : S' = Settle(Trees[i], Cases[i].gate, S, g, Cases[i].serial)
        /\ UNCHANGED i
Stutter == UNCHANGED vars

Confluence == ConfluentWith(Trees[i], S, Specs[i])
Progress == NoHang(S)
Seriality == SerialRoots(Trees[i], S, Cases[i].serial)
Orphans == OnlyOrphansAfterReady(S)

\* ---- V ------------------------------------------------------------------------------
SeqSetOf(q) == {q[k] : k \in 1..Len(q)}
\* the first step of a run at which the model and the recording disagree: 0 = initial pending set,
\* k = after step k, -1 (here: Len + 1) = the readiness step, "ok" otherwise
RECURSIVE Replay(_, _, _, _, _, _)
Replay(T, G, St, run, k, serial) ==
  \* -> [ok, at, what]
  IF k > Len(run.steps) THEN [ok |-> TRUE, at |-> 0, what |-> "ok", fin |-> St]
  ELSE LET st == run.steps[k] IN
       IF st.g \notin Pending(St) THEN [ok |-> FALSE, at |-> k, what |-> "drift-settled-gate-not-pending-in-model", fin |-> St]
       ELSE LET S2 == Settle(T, G, St, st.g, serial) IN
            IF Pending(S2) # SeqSetOf(st.pending) THEN [ok |-> FALSE, at |-> k, what |-> "drift-pending-set-differs", fin |-> S2]
            ELSE IF Ready(S2) # (k >= run.readyAfter) THEN [ok |-> FALSE, at |-> k, what |-> "drift-readiness-differs", fin |-> S2]
            ELSE Replay(T, G, S2, run, k + 1, serial)

RunClause(c, T, run) ==
  LET S0 == Start(T, c.gate, c.serial) IN
  IF Pending(S0) # SeqSetOf(run.initial) THEN [what |-> "drift-initial-pending-set-differs", at |-> 0]
  ELSE IF Ready(S0) # (run.readyAfter = 0) THEN [what |-> "drift-readiness-differs", at |-> 0]
  ELSE LET r == Replay(T, c.gate, S0, run, 1, c.serial) IN
       IF ~r.ok THEN [what |-> r.what, at |-> r.at]
       ELSE IF Ready(r.fin) /\ Nulled(r.fin) # SeqSetOf(run.nulled) THEN [what |-> "drift-nulled-positions-differ", at |-> Len(run.steps)]
       ELSE [what |-> "ok", at |-> 0]

TraceOK ==
  LET c == Cases[i] T == Trees[i]
      bad == {r \in 1..Len(c.runs) : RunClause(c, T, c.runs[r]).what # "ok"}
  IN bad = {} \/ LET r == CHOOSE x \in bad : \A y \in bad : x <= y IN
                 PrintT(ToJson([viol |-> i, clause |-> RunClause(c, T, c.runs[r]).what, run |-> r, at |-> RunClause(c, T, c.runs[r]).at, nbad |-> Cardinality(bad)]))
=============================================================================
