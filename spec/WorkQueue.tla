------------------------------ MODULE WorkQueue ------------------------------
(* I-spec of graphql/execution/incremental/work_queue.py.                      *)
(* One operator per method; one action per asynchronous event.                 *)
EXTENDS Naturals, Sequences, FiniteSets, TLC, Json

CONSTANTS Graphs,     \* set of work-graph records, see MC module
          FixNonRootFailure  \* TRUE: the publisher ignores a failure event for a group that was never announced
                             \* (repaired design, fix commit in /repo); FALSE: it mints an id for it (finding F8)
NoGroup == "none"

VARIABLES cfg,        \* the chosen work graph (never changes)
          m,          \* the queue's data structures, as one record
          pulling,    \* a consumer is parked in (or entering) events()
          started,    \* events() has run its prologue
          out,        \* history: sequence of emitted batches
          open, done, \* P-level bookkeeping derived from emitted events
          bad,        \* name of the violated protocol clause, or "ok"
          hist        \* history of actions (G-configs only; projected away by a VIEW in M-configs)

vars == <<cfg, m, pulling, started, out, open, done, bad, hist>>

EmptyWork == [groups |-> <<>>, tasks |-> <<>>, streams |-> <<>>]
Absent == [present |-> FALSE]

SeqToSet(s) == {s[i] : i \in 1..Len(s)}
Remove(s, x) == SelectSeq(s, LAMBDA y : y # x)
AddUnique(s, x) == IF x \in SeqToSet(s) THEN s ELSE Append(s, x)

-------------------------------------------------------------------------------
(* graph accessors *)
Parent(g)   == cfg.parent[g]
TGroups(t)  == cfg.tgroups[t]
TOk(t)      == cfg.tok[t]
TSync(t)    == cfg.tsync[t]
TWork(t)    == cfg.twork[t]
SBatches(s) == cfg.sbatches[s]
SEnd(s)     == cfg.send[s]
SPeek(s)    == cfg.speek[s]

-------------------------------------------------------------------------------
(* _push *)
Push(mm, ev) == IF mm.stopped THEN mm ELSE [mm EXCEPT !.ch = Append(@, ev)]

(* _start_task *)
StartTask(mm, t) ==
  IF mm.tn[t].present THEN mm
  ELSE LET m1 == [mm EXCEPT !.tn[t] = [present |-> TRUE, set |-> FALSE, cs |-> <<>>]]
       IN IF TSync(t)
          THEN Push(m1, [k |-> IF TOk(t) THEN "TS" ELSE "TF", x |-> t, b |-> 0])
          ELSE [m1 EXCEPT !.running = @ \cup {t}]

RECURSIVE StartTasks(_, _)
StartTasks(mm, ts) == IF ts = <<>> THEN mm ELSE StartTasks(StartTask(mm, Head(ts)), Tail(ts))

(* _start_group *)
StartGroup(mm, g) == IF mm.gn[g].present THEN StartTasks(mm, mm.gn[g].tasks) ELSE mm

(* _start_stream: the pump begins waiting for the first batch *)
StartStream(mm, s) == [mm EXCEPT !.sph[s] = "await"]

(* _add_group, parents first *)
RECURSIVE AddGroup(_, _, _, _, _)
AddGroup(st, g, gset, hasParentTask, dummy) ==
  \* st = [mm, visited, newRoots]
  IF g \in st.visited THEN st
  ELSE LET st0 == [st EXCEPT !.visited = @ \cup {g}]
           p   == Parent(g)
           st1 == IF p # NoGroup /\ p \in gset THEN AddGroup(st0, p, gset, hasParentTask, dummy) ELSE st0
           mm1 == [st1.mm EXCEPT !.gn[g] = [present |-> TRUE, children |-> <<>>, tasks |-> <<>>, pending |-> 0]]
       IN IF ~hasParentTask /\ p = NoGroup
          THEN [st1 EXCEPT !.mm = mm1, !.newRoots = Append(@, g)]
          ELSE IF p # NoGroup /\ mm1.gn[p].present
               THEN [st1 EXCEPT !.mm = [mm1 EXCEPT !.gn[p].children = Append(@, g)]]
               ELSE [st1 EXCEPT !.mm = mm1]

RECURSIVE AddGroupsLoop(_, _, _, _)
AddGroupsLoop(st, gs, gset, hasParentTask) ==
  IF gs = <<>> THEN st
  ELSE AddGroupsLoop(AddGroup(st, Head(gs), gset, hasParentTask, 0), Tail(gs), gset, hasParentTask)

(* _add_task *)
RECURSIVE AddTaskToGroups(_, _, _)
AddTaskToGroups(mm, t, gs) ==
  IF gs = <<>> THEN mm
  ELSE LET g == Head(gs) IN
       IF mm.gn[g].present
       THEN LET m1 == [mm EXCEPT !.gn[g].tasks = AddUnique(@, t), !.gn[g].pending = @ + 1]
                m2 == IF g \in SeqToSet(m1.rg) THEN StartTask(m1, t) ELSE m1
            IN AddTaskToGroups(m2, t, Tail(gs))
       ELSE AddTaskToGroups(mm, t, Tail(gs))

RECURSIVE AddTasks(_, _)
AddTasks(mm, ts) == IF ts = <<>> THEN mm ELSE AddTasks(AddTaskToGroups(mm, Head(ts), TGroups(Head(ts))), Tail(ts))

(* _maybe_integrate_work; parentTask = "" means None *)
Integrate(mm, w, parentTask) ==
  LET hasPT == parentTask # ""
      st1 == AddGroupsLoop([mm |-> mm, visited |-> {}, newRoots |-> <<>>], w.groups, SeqToSet(w.groups), hasPT)
      m2  == AddTasks(st1.mm, w.tasks)
      m3  == IF hasPT /\ w.streams # <<>> /\ m2.tn[parentTask].present
             THEN [m2 EXCEPT !.tn[parentTask].cs = @ \o w.streams] ELSE m2
  IN [mm |-> m3, newGroups |-> st1.newRoots, newStreams |-> IF hasPT THEN <<>> ELSE w.streams]

(* _prune_empty_groups *)
RECURSIVE Prune(_, _)
Prune(st, gs) ==  \* st = [mm, keep]
  IF gs = <<>> THEN st
  ELSE LET g == Head(gs) IN
       IF ~st.mm.gn[g].present THEN Prune(st, Tail(gs))
       ELSE IF st.mm.gn[g].pending > 0 THEN Prune([st EXCEPT !.keep = Append(@, g)], Tail(gs))
       ELSE LET kids == st.mm.gn[g].children
                st1  == Prune([st EXCEPT !.mm.gn[g] = Absent], kids)
            IN Prune(st1, Tail(gs))

(* _start_new_work *)
RECURSIVE StartNewGroups(_, _)
StartNewGroups(mm, gs) ==
  IF gs = <<>> THEN mm
  ELSE StartNewGroups(StartGroup([mm EXCEPT !.rg = AddUnique(@, Head(gs))], Head(gs)), Tail(gs))
RECURSIVE StartNewStreams(_, _)
StartNewStreams(mm, ss) ==
  IF ss = <<>> THEN mm
  ELSE StartNewStreams(StartStream([mm EXCEPT !.rs = AddUnique(@, Head(ss))], Head(ss)), Tail(ss))
StartNewWork(mm, gs, ss) == StartNewStreams(StartNewGroups(mm, gs), ss)

(* _remove_task *)
RemoveTask(mm, t) ==
  [mm EXCEPT !.gn = [g \in DOMAIN mm.gn |->
                        IF mm.gn[g].present /\ g \in SeqToSet(TGroups(t))
                        THEN [mm.gn[g] EXCEPT !.tasks = Remove(@, t)] ELSE mm.gn[g]],
             !.tn[t] = Absent]

(* _finish_group_success *)
RECURSIVE CollectTasks(_, _, _)
CollectTasks(st, ts, dummy) == \* st = [mm, values, streams]
  IF ts = <<>> THEN st
  ELSE LET t == Head(ts) IN
       IF st.mm.tn[t].present
       THEN CollectTasks([mm |-> RemoveTask(st.mm, t),
                          values |-> IF st.mm.tn[t].set THEN Append(st.values, t) ELSE st.values,
                          streams |-> st.streams \o st.mm.tn[t].cs], Tail(ts), dummy)
       ELSE CollectTasks(st, Tail(ts), dummy)

FinishGroupSuccess(mm, g) ==
  LET node == mm.gn[g]
      m1   == [mm EXCEPT !.gn[g] = Absent]
      c    == CollectTasks([mm |-> m1, values |-> <<>>, streams |-> <<>>], node.tasks, 0)
      p    == Prune([mm |-> c.mm, keep |-> <<>>], node.children)
      m2   == [p.mm EXCEPT !.rg = Remove(@, g)]
      evs  == (IF c.values # <<>> THEN << [e |-> "GV", x |-> g, vals |-> c.values, ng |-> <<>>, ns |-> <<>>] >> ELSE <<>>)
              \o << [e |-> "GS", x |-> g, vals |-> <<>>, ng |-> p.keep, ns |-> c.streams] >>
  IN [mm |-> m2, evs |-> evs, ng |-> p.keep, ns |-> c.streams]

(* _task_success *)
RECURSIVE TaskSuccessLoop(_, _, _)
TaskSuccessLoop(st, gs, t) == \* st = [mm, evs, ng, ns]
  IF gs = <<>> THEN st
  ELSE LET g == Head(gs) IN
       IF st.mm.gn[g].present
       THEN LET m1 == [st.mm EXCEPT !.gn[g].pending = @ - 1] IN
            IF g \in SeqToSet(m1.rg) /\ m1.gn[g].pending = 0
            THEN LET f == FinishGroupSuccess(m1, g)
                 IN TaskSuccessLoop([mm |-> f.mm, evs |-> st.evs \o f.evs, ng |-> st.ng \o f.ng, ns |-> st.ns \o f.ns], Tail(gs), t)
            ELSE TaskSuccessLoop([st EXCEPT !.mm = m1], Tail(gs), t)
       ELSE TaskSuccessLoop(st, Tail(gs), t)

TaskSuccess(mm, t) ==
  LET m1 == IF mm.tn[t].present THEN [mm EXCEPT !.tn[t].set = TRUE] ELSE mm
      i  == Integrate(m1, TWork(t), t)
      l  == TaskSuccessLoop([mm |-> i.mm, evs |-> <<>>, ng |-> <<>>, ns |-> <<>>], TGroups(t), t)
  IN [mm |-> StartNewWork(l.mm, l.ng, l.ns), evs |-> l.evs]

(* _remove_group: worklist form (no mutual recursion) *)
RECURSIVE RemoveGroupTasks(_, _)
RemoveGroupTasks(mm, ts) ==
  IF ts = <<>> THEN mm
  ELSE LET t == Head(ts)
           dead == \A g \in SeqToSet(TGroups(t)) : ~mm.gn[g].present
           \* _abort_task (repair of F36): a task that lost all its groups is aborted - if its computation is still
           \* running its gate is cancelled, so the environment cannot settle it any more
       IN RemoveGroupTasks(IF dead THEN RemoveTask([mm EXCEPT !.running = @ \ {t}], t) ELSE mm, Tail(ts))
RECURSIVE RemoveGroups(_, _)
RemoveGroups(mm, work) ==   \* depth-first, children right after their parent
  IF work = <<>> THEN mm
  ELSE LET g == Head(work) IN
       IF ~mm.gn[g].present THEN RemoveGroups(mm, Tail(work))
       ELSE LET node == mm.gn[g]
                m1 == [mm EXCEPT !.gn[g] = Absent]
                m2 == RemoveGroupTasks(m1, node.tasks)
            IN RemoveGroups(m2, node.children \o Tail(work))
RemoveGroup(mm, g) == RemoveGroups(mm, <<g>>)

(* _task_failure *)
RECURSIVE TaskFailureLoop(_, _)
TaskFailureLoop(st, gs) ==
  IF gs = <<>> THEN st
  ELSE LET g == Head(gs) IN
       IF st.mm.gn[g].present
       THEN LET m1 == RemoveGroup(st.mm, g)
                m2 == [m1 EXCEPT !.rg = Remove(@, g)]
                \* the queue reports a failure for every group of the task that has a node, including
                \* nested groups that are not roots (never announced); see PublisherDropsUnannounced
                evs2 == Append(st.evs, [e |-> "GF", x |-> g, vals |-> <<>>, ng |-> <<>>, ns |-> <<>>])
            IN TaskFailureLoop([mm |-> m2, evs |-> evs2], Tail(gs))
       ELSE TaskFailureLoop(st, Tail(gs))
TaskFailure(mm, t) == TaskFailureLoop([mm |-> [mm EXCEPT !.tn[t] = Absent], evs |-> <<>>], TGroups(t))

(* _stream_items *)
RECURSIVE StreamItemsLoop(_, _)
StreamItemsLoop(st, items) == \* st = [mm, ng, ns]
  IF items = <<>> THEN st
  ELSE LET i  == Integrate(st.mm, Head(items), "")
           p  == Prune([mm |-> i.mm, keep |-> <<>>], i.newGroups)
           m2 == StartNewWork(p.mm, p.keep, i.newStreams)
       IN StreamItemsLoop([mm |-> m2, ng |-> st.ng \o p.keep, ns |-> st.ns \o i.newStreams], Tail(items))

StreamItems(mm, s, b) ==
  LET items == SBatches(s)[b]
      l  == StreamItemsLoop([mm |-> mm, ng |-> <<>>, ns |-> <<>>], items)
      m1 == [l.mm EXCEPT !.sph[s] = IF @ = "handled" THEN "await" ELSE @]   \* handled.set()
      ev == [e |-> "SV", x |-> s, vals |-> <<b>>, ng |-> l.ng, ns |-> l.ns]
      stoppedNow == b = Len(SBatches(s)) /\ SPeek(s) /\ SEnd(s) = "stop"
  IN IF stoppedNow
     THEN [mm |-> [m1 EXCEPT !.rs = Remove(@, s)], evs |-> <<ev, [e |-> "SS", x |-> s, vals |-> <<>>, ng |-> <<>>, ns |-> <<>>]>>]
     ELSE [mm |-> m1, evs |-> <<ev>>]

(* _handle_graph_event *)
Handle(mm, ge) ==
  CASE ge.k = "TS" -> TaskSuccess(mm, ge.x)
    [] ge.k = "TF" -> TaskFailure(mm, ge.x)
    [] ge.k = "SI" -> StreamItems(mm, ge.x, ge.b)
    [] ge.k = "SS" -> IF ge.x \in SeqToSet(mm.rs)
                      THEN [mm |-> [mm EXCEPT !.rs = Remove(@, ge.x)], evs |-> <<[e |-> "SS", x |-> ge.x, vals |-> <<>>, ng |-> <<>>, ns |-> <<>>]>>]
                      ELSE [mm |-> mm, evs |-> <<>>]
    [] ge.k = "SF" -> [mm |-> [mm EXCEPT !.rs = Remove(@, ge.x)], evs |-> <<[e |-> "SF", x |-> ge.x, vals |-> <<>>, ng |-> <<>>, ns |-> <<>>]>>]

(* the body of events(): handle the whole channel, then the termination test *)
RECURSIVE DrainLoop(_, _)
DrainLoop(mm, evs) ==
  IF mm.ch = <<>> THEN [mm |-> mm, evs |-> evs]
  ELSE LET h == Handle([mm EXCEPT !.ch = Tail(@)], Head(mm.ch))
       IN DrainLoop(h.mm, evs \o h.evs)

DrainAll(mm) ==
  LET d == DrainLoop(mm, <<>>) IN
  IF d.mm.rg = <<>> /\ d.mm.rs = <<>>
  THEN [mm |-> [d.mm EXCEPT !.stopped = TRUE], evs |-> Append(d.evs, [e |-> "END", x |-> "", vals |-> <<>>, ng |-> <<>>, ns |-> <<>>])]
  ELSE d

-------------------------------------------------------------------------------
(* P-level bookkeeping: fold one emitted event into open/done, flag violations *)
Fold(st, ev) == \* st = [open, done, bad]
  LET viol(c) == IF st.bad = "ok" THEN c ELSE st.bad
      announce == SeqToSet(ev.ng) \cup SeqToSet(ev.ns)
      fresh == announce \cap (st.open \cup st.done) = {}
  IN CASE ev.e = "GF" /\ FixNonRootFailure /\ ev.x \notin st.open /\ ev.x \notin st.done -> st   \* dropped by the publisher
       [] ev.e \in {"GV", "SV"} ->
            [open |-> st.open \cup (IF ev.e = "SV" THEN announce ELSE {}), done |-> st.done,
             bad |-> IF ev.x \notin st.open THEN viol("data-for-non-pending")
                     ELSE IF ~fresh THEN viol("id-reused") ELSE st.bad]
       [] ev.e \in {"GS", "GF", "SS", "SF"} ->
            [open |-> (st.open \ {ev.x}) \cup announce, done |-> st.done \cup {ev.x},
             bad |-> IF ev.x \notin st.open THEN viol("completed-non-pending")
                     ELSE IF ~fresh THEN viol("id-reused")
                     ELSE IF \E g \in SeqToSet(ev.ng) : Parent(g) # NoGroup /\ Parent(g) \in (st.open \ {ev.x}) THEN viol("child-before-parent")
                     ELSE st.bad]
       [] ev.e = "END" ->
            [st EXCEPT !.bad = IF st.open # {} THEN viol("end-with-open") ELSE st.bad]

RECURSIVE FoldAll(_, _)
FoldAll(st, evs) == IF evs = <<>> THEN st ELSE FoldAll(Fold(st, Head(evs)), Tail(evs))

-------------------------------------------------------------------------------
InitM(c) ==
  LET gn0 == [g \in DOMAIN c.parent |-> Absent]
      tn0 == [t \in DOMAIN c.tgroups |-> Absent]
      m0  == [rg |-> <<>>, rs |-> <<>>, gn |-> gn0, tn |-> tn0, ch |-> <<>>, stopped |-> FALSE,
              running |-> {}, settled |-> {},
              sph |-> [s \in DOMAIN c.sbatches |-> "idle"], spos |-> [s \in DOMAIN c.sbatches |-> 0]]
  IN m0

\* Init only picks the work graph; the constructor runs as the first action (so that TLC's workers
\* share the cost of building the initial graph state)
Unbuilt == [unbuilt |-> TRUE]
Init ==
  /\ cfg \in Graphs
  /\ pulling = FALSE /\ started = FALSE /\ out = <<>> /\ bad = "ok" /\ done = {} /\ hist = <<>>
  /\ m = Unbuilt /\ open = {}

CfgReady == "init" \in DOMAIN cfg      \* MC modules may build cfg in stages
Construct ==
  /\ m = Unbuilt /\ CfgReady
  /\ LET i == Integrate(InitM(cfg), cfg.init, "")      \* constructor
         p == Prune([mm |-> i.mm, keep |-> <<>>], i.newGroups)
     IN /\ m' = [p.mm EXCEPT !.rg = p.keep, !.rs = i.newStreams]
        /\ open' = SeqToSet(p.keep) \cup SeqToSet(i.newStreams)
  /\ UNCHANGED <<cfg, pulling, started, out, bad, done, hist>>

(* a consumer asks for the next batch; the first time, events() starts the roots *)
DoDrain(mm) ==
  LET d == DrainAll(mm)
      f == FoldAll([open |-> open, done |-> done, bad |-> bad], d.evs)
  IN /\ m' = d.mm
     /\ IF d.evs # <<>>
        THEN /\ out' = Append(out, d.evs) /\ pulling' = FALSE
             /\ open' = f.open /\ done' = f.done /\ bad' = f.bad
        ELSE /\ UNCHANGED <<out, open, done, bad>> /\ pulling' = TRUE

Pull ==
  /\ m # Unbuilt /\ ~pulling /\ ~m.stopped
  /\ LET m1 == IF started THEN m
               ELSE StartNewStreams(StartNewGroups(m, m.rg), m.rs)
     IN IF m1.ch # <<>> THEN DoDrain(m1)
        ELSE m' = m1 /\ pulling' = TRUE /\ UNCHANGED <<out, open, done, bad>>
  /\ started' = TRUE /\ hist' = Append(hist, [a |-> "Pull", x |-> ""])
  /\ UNCHANGED cfg

(* environment: an asynchronous task settles *)
AfterPush(m1) ==
  IF pulling /\ m1.ch # <<>> THEN DoDrain(m1)
  ELSE m' = m1 /\ UNCHANGED <<out, open, done, bad, pulling>>

TaskSettle(t) ==
  /\ m # Unbuilt /\ t \in m.running
  /\ LET m1 == Push([m EXCEPT !.running = @ \ {t}], [k |-> IF TOk(t) THEN "TS" ELSE "TF", x |-> t, b |-> 0])
     IN AfterPush(m1)
  /\ hist' = Append(hist, [a |-> "TaskSettle", x |-> t])
  /\ UNCHANGED <<cfg, started>>

StreamBatch(s) ==
  /\ m # Unbuilt /\ m.sph[s] = "await" /\ m.spos[s] < Len(SBatches(s))
  /\ LET b  == m.spos[s] + 1
         m1 == Push([m EXCEPT !.sph[s] = "handled", !.spos[s] = b], [k |-> "SI", x |-> s, b |-> b])
     IN AfterPush(m1)
  /\ hist' = Append(hist, [a |-> "StreamBatch", x |-> s])
  /\ UNCHANGED <<cfg, started>>

StreamEnd(s) ==
  /\ m # Unbuilt /\ m.sph[s] = "await" /\ m.spos[s] = Len(SBatches(s))
  /\ LET m1 == Push([m EXCEPT !.sph[s] = "over"], [k |-> IF SEnd(s) = "stop" THEN "SS" ELSE "SF", x |-> s, b |-> 0])
     IN AfterPush(m1)
  /\ hist' = Append(hist, [a |-> "StreamEnd", x |-> s])
  /\ UNCHANGED <<cfg, started>>

Next ==
  \/ Construct
  \/ /\ CfgReady /\ m # Unbuilt
     /\ \/ Pull
        \/ \E t \in DOMAIN cfg.tgroups : TaskSettle(t)
        \/ \E s \in DOMAIN cfg.sbatches : StreamBatch(s) \/ StreamEnd(s)

Spec == Init /\ [][Next]_vars

-------------------------------------------------------------------------------
(* invariants *)
ProtocolOK == bad = "ok"

\* structural invariants of the graph
RootsHaveNodes == m = Unbuilt \/ \A g \in SeqToSet(m.rg) : m.gn[g].present
RootParentNotPending == m = Unbuilt \/ \A g \in SeqToSet(m.rg) : Parent(g) = NoGroup \/ ~m.gn[Parent(g)].present
PendingCounts == m = Unbuilt \/ \A g \in DOMAIN m.gn : m.gn[g].present =>
                   m.gn[g].pending = Cardinality({t \in SeqToSet(m.gn[g].tasks) : ~(m.tn[t].present /\ m.tn[t].set)})
OpenMatchesRoots == started => open = SeqToSet(m.rg) \cup SeqToSet(m.rs)
\* every run that can no longer move has terminated properly
Quiescent == ~ENABLED Next
EndsProperly == (m # Unbuilt /\ Quiescent) => (m.stopped /\ open = {} /\ out # <<>> /\ out[Len(out)][Len(out[Len(out)])].e = "END")
\* G-direction: print every completed behaviour as one JSON line
View == <<cfg, m, pulling, started, open, done, bad>>
EmitBehaviour == (m # Unbuilt /\ Quiescent) => PrintT(ToJson([cfg |-> cfg, hist |-> hist, out |-> out]))
=============================================================================
