---------------------------- MODULE SchemaAlgebraV ----------------------------
(* V direction for C19.                                                        *)
(*  [kind |-> "extend", base, ext, extended, together, baseAfter]              *)
(*       extended = projection of extend_schema(build(A), parse(B))            *)
(*       together = projection of build(A + B); baseAfter = projection of the  *)
(*       original schema object after extending                                *)
(*  [kind |-> "sort", base, sorted, sortedTwice]                               *)
EXTENDS SchemaAlgebra, Json, IOUtils
Cases == JsonDeserialize(IOEnv.CASES)
VARIABLE i
Init == i \in 1..Len(Cases)
Next == UNCHANGED i
Clause(c) ==
  CASE c.kind = "extend" ->
         LET want == ApplyExt(c.base, c.ext) IN
         IF ~SchemaValid(want) THEN "skip-extension-result-not-valid"
         ELSE IF c.extended # c.together THEN "extend-differs-from-building-together"
         ELSE IF c.baseAfter # c.base THEN "original-schema-changed-by-extending"
         ELSE IF c.extended # want THEN "drift-extended-schema-differs-from-ApplyExt"
         ELSE "ok"
    [] c.kind = "sort" ->
         IF Unordered(c.sorted) # Unordered(c.base) THEN "sorting-changed-more-than-order"
         ELSE IF c.sortedTwice # c.sorted THEN "sorting-twice-differs-from-sorting-once"
         ELSE "ok"
Check == LET cl == Clause(Cases[i]) IN cl = "ok" \/ PrintT(ToJson([viol |-> i, clause |-> cl]))
=============================================================================
