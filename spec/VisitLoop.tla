------------------------------ MODULE VisitLoop ------------------------------
(* I-spec of graphql/language/visitor.py: visit() as the explicit-stack loop   *)
(* the code runs (variables stack, in_array, keys, idx, edits, node, key,      *)
(* parent, path, ancestors; one Step per loop iteration), over the trees of    *)
(* VisitContract.tla.  Checked against the recursive contract RefVisit on all   *)
(* enumerated (tree, program) pairs (MCVisit.tla): the loop design refines the *)
(* documented contract.                                                        *)
(* Two repaired defects stay documented as constants:                          *)
(*   GuardRoot   - FALSE: `continue` on SKIP/REMOVE of the root re-enters the   *)
(*                 loop with an empty stack (finding F5: IndexError)            *)
(*   RemoveIsNone - FALSE: REMOVE of a single-valued child leaves the sentinel  *)
(*                 in the rebuilt parent (finding F12)                          *)
EXTENDS VisitContract

CONSTANTS GuardRoot, RemoveIsNone

NoNode == [none |-> TRUE]
Removed == [removed |-> TRUE]
Sentinel == [id |-> 999999, kind |-> "REMOVE-sentinel", fields |-> <<>>]
IsTuple(x) == "tup" \in DOMAIN x
IsTree(x) == "kind" \in DOMAIN x
Tup(items, owner) == [tup |-> TRUE, items |-> items, owner |-> owner]

FieldNames(n) == [i \in 1..Len(n.fields) |-> n.fields[i].name]
FieldOf(n, name) == n.fields[CHOOSE i \in 1..Len(n.fields) : n.fields[i].name = name]
\* getattr(parent, key): a tuple for a list-valued field, the child or None for a single-valued one
GetAttr(n, name) == LET f == FieldOf(n, name) IN
                    IF f.many THEN Tup(f.kids, n.id) ELSE IF f.kids = <<>> THEN NoNode ELSE f.kids[1]

ParentId(p) == IF p = NoNode THEN 0 ELSE IF IsTuple(p) THEN p.owner + 100000 ELSE p.id
\* keys: [n |-> index] inside a list, [s |-> field name] inside a node, NoKey for the root
NoKey == [root |-> TRUE]
KeyStr(k) == IF "n" \in DOMAIN k THEN "#" \o ToString(k.n) ELSE IF "s" \in DOMAIN k THEN k.s ELSE ""
RawKey(k) == IF "n" \in DOMAIN k THEN k.n ELSE IF "s" \in DOMAIN k THEN k.s ELSE "root"
PathStr(p) == [i \in 1..Len(p) |-> KeyStr(p[i])]
LogEntry(ph, n, key, path, ancestors, parent) ==
  [ph |-> ph, id |-> n.id, kind |-> n.kind, key |-> KeyStr(key), path |-> PathStr(path), anc |-> Len(ancestors), parent |-> ParentId(parent)]

\* apply the edits of an array level: [(index, value)], REMOVE pops with an offset
RECURSIVE ApplyArray(_, _, _)
ApplyArray(items, edits, offset) ==
  IF edits = <<>> THEN items
  ELSE LET k == Head(edits)[1] - offset  v == Head(edits)[2] IN
       IF v = Removed
       THEN ApplyArray(SubSeq(items, 1, k) \o SubSeq(items, k + 2, Len(items)), Tail(edits), offset + 1)
       ELSE ApplyArray([items EXCEPT ![k + 1] = v], Tail(edits), offset)
\* rebuild a node from the edits of its fields
RECURSIVE ApplyFields(_, _)
ApplyFields(n, edits) ==
  IF edits = <<>> THEN n
  ELSE LET name == Head(edits)[1]  v == Head(edits)[2]
           i == CHOOSE j \in 1..Len(n.fields) : n.fields[j].name = name
           kids == IF IsTuple(v) THEN v.items
                   ELSE IF v = Removed THEN (IF RemoveIsNone THEN <<>> ELSE <<Sentinel>>)
                   ELSE <<v>>
       IN ApplyFields([n EXCEPT !.fields[i].kids = kids], Tail(edits))

Last(q) == q[Len(q)]
Front(q) == SubSeq(q, 1, Len(q) - 1)

\* st: [stack, inArray, keys, idx, edits, node, key, parent, path, ancestors, log, status]
\* status: "run" | "break" | "done" | "raise"
InitState(root) == [stack |-> <<>>, inArray |-> FALSE, keys |-> <<root>>, idx |-> 0, edits |-> <<>>, node |-> root, key |-> NoKey,
                    parent |-> NoNode, path |-> <<>>, ancestors |-> <<>>, log |-> <<>>, status |-> "run", first |-> TRUE]

\* the tail of an iteration: "if result is None and is_edited", leaving/entering bookkeeping, "if not stack: break"
Finish(st, isLeaving, isEdited, resultNone, prevStackEmptyBefore) ==
  LET e1 == IF resultNone /\ isEdited THEN Append(st.edits, <<RawKey(st.key), st.node>>) ELSE st.edits IN
  IF isLeaving
  THEN LET st2 == [st EXCEPT !.edits = e1, !.path = IF st.path # <<>> THEN Front(st.path) ELSE <<>>] IN
       [st2 EXCEPT !.status = IF st2.stack = <<>> THEN "done" ELSE "run"]
  ELSE LET frame == [inArray |-> st.inArray, idx |-> st.idx, keys |-> st.keys, edits |-> e1]
           isArr == IsTuple(st.node)
       IN [st EXCEPT !.stack = Append(st.stack, frame), !.inArray = isArr,
                     !.keys = IF isArr THEN st.node.items ELSE FieldNames(st.node),
                     !.idx = 0, !.first = TRUE, !.edits = <<>>,
                     !.ancestors = IF st.parent # NoNode THEN Append(st.ancestors, st.parent) ELSE st.ancestors,
                     !.parent = st.node, !.status = "run"]

Step(st0, prog) ==
  LET idx == IF st0.first THEN 0 ELSE st0.idx + 1
      st == [st0 EXCEPT !.idx = idx, !.first = FALSE]
      isLeaving == idx = Len(st.keys)
      isEdited == isLeaving /\ st.edits # <<>>
  IN
  IF isLeaving /\ st.stack = <<>> THEN [st EXCEPT !.status = "raise"]      \* stack.idx on an empty stack (unguarded root continue)
  ELSE
  LET \* ---- positioning
      pos == IF isLeaving
             THEN LET key == IF st.ancestors # <<>> THEN Last(st.path) ELSE NoKey
                      node0 == st.parent
                      parent == IF st.ancestors # <<>> THEN Last(st.ancestors) ELSE NoNode
                      anc == IF st.ancestors # <<>> THEN Front(st.ancestors) ELSE <<>>
                      node == IF isEdited
                              THEN (IF st.inArray THEN Tup(ApplyArray(node0.items, st.edits, 0), node0.owner) ELSE ApplyFields(node0, st.edits))
                              ELSE node0
                      fr == Last(st.stack)
                  IN [st EXCEPT !.key = key, !.node = node, !.parent = parent, !.ancestors = anc, !.idx = fr.idx, !.keys = fr.keys,
                                !.edits = fr.edits, !.inArray = fr.inArray, !.stack = Front(st.stack)]
             ELSE IF st.parent # NoNode
                  THEN LET key == IF st.inArray THEN [n |-> idx] ELSE [s |-> st.keys[idx + 1]]
                           node == IF st.inArray THEN st.parent.items[idx + 1] ELSE GetAttr(st.parent, key.s)
                       IN [st EXCEPT !.key = key, !.node = node]
                  ELSE st
      skipNone == ~isLeaving /\ st.parent # NoNode /\ pos.node = NoNode            \* "if node is None: continue"
  IN
  IF skipNone THEN pos
  ELSE LET p1 == IF ~isLeaving /\ st.parent # NoNode THEN [pos EXCEPT !.path = Append(@, pos.key)] ELSE pos IN
       IF IsTuple(p1.node) THEN Finish(p1, isLeaving, isEdited, TRUE, FALSE)
       ELSE IF ~IsTree(p1.node) THEN [p1 EXCEPT !.status = "raise"]                 \* "Invalid AST Node"
       ELSE LET ph == IF isLeaving THEN "leave" ELSE "enter"
                d == Decision(prog, ph, p1.node.id)
                p2 == [p1 EXCEPT !.log = Append(@, LogEntry(ph, p1.node, p1.key, p1.path, p1.ancestors, p1.parent))]
            IN IF d.d = "break" THEN [p2 EXCEPT !.status = "break"]
               ELSE IF d.d = "skip" /\ ~isLeaving
                    THEN (IF GuardRoot /\ p2.stack = <<>> THEN [p2 EXCEPT !.status = "done"]
                          ELSE IF p2.path = <<>> THEN [p2 EXCEPT !.status = "raise"]       \* pop from empty list
                          ELSE [p2 EXCEPT !.path = Front(@)])                               \* continue
               ELSE IF d.d \in {"remove", "replace"}
                    THEN LET val == IF d.d = "remove" THEN Removed ELSE d.rep
                             p3 == [p2 EXCEPT !.edits = Append(@, <<RawKey(p2.key), val>>)]
                         IN IF ~isLeaving
                            THEN (IF d.d = "replace" THEN Finish([p3 EXCEPT !.node = d.rep], isLeaving, isEdited, FALSE, FALSE)
                                  ELSE IF GuardRoot /\ p3.stack = <<>> THEN [p3 EXCEPT !.status = "done"]
                                  ELSE IF p3.path = <<>> THEN [p3 EXCEPT !.status = "raise"]
                                  ELSE [p3 EXCEPT !.path = Front(@)])
                            ELSE Finish(p3, isLeaving, isEdited, FALSE, FALSE)
               ELSE Finish(p2, isLeaving, isEdited, d.d # "skip", FALSE)      \* SKIP returned from leave is not None: the edited node is not passed up

RECURSIVE Run(_, _, _)
Run(st, prog, fuel) == IF st.status # "run" \/ fuel = 0 THEN st ELSE Run(Step(st, prog), prog, fuel - 1)

LoopVisit(tree, prog) ==
  LET fin == Run(InitState(tree), prog, 2000)
      res == IF fin.edits # <<>> THEN Last(fin.edits)[2] ELSE tree
  IN [log |-> fin.log,
      outcome |-> IF fin.status = "raise" THEN "raised" ELSE IF fin.status = "run" THEN "diverged"
                  ELSE IF fin.status = "break" THEN "broke"
                  ELSE IF res = Removed THEN "removed" ELSE IF res = tree THEN "same" ELSE "edited",
      result |-> IF fin.status \in {"done"} /\ IsTree(res) /\ res # tree THEN Shape(res) ELSE Shape(tree)]
=============================================================================
