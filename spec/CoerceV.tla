------------------------------- MODULE CoerceV -------------------------------
(* V direction for C15: [schema, type, result] - a value the real input        *)
(* coercion (of a runtime value, a literal, or a variable) accepted.           *)
EXTENDS Coerce, Json, IOUtils
Cases == JsonDeserialize(IOEnv.CASES)
VARIABLE i
Init == i \in 1..Len(Cases)
Next == UNCHANGED i
Check == LET c == Cases[i] IN Conforms(c.schema, c.result, c.type) \/ PrintT(ToJson([viol |-> i, clause |-> "accepted-result-does-not-conform"]))
=============================================================================
