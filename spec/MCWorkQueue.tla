---------------------------- MODULE MCWorkQueue ----------------------------
(* Enumerator of well-formed work graphs for WorkQueue.tla (C05 M and G).     *)
(* Flat part: NG groups in any parent forest, NT tasks in 1..2 groups         *)
(* (antichain), ok/fail, sync/async, NS streams with batch shapes and ends.   *)
(* Nested part (constant Extra): one extra piece of work produced at run time *)
(*   "none"  - nothing                                                        *)
(*   "tg"    - task t1's result adds group gx (child of one of t1's groups)   *)
(*             with task tx                                                   *)
(*   "ts"    - task t1's result adds stream sx                                *)
(*   "sg"    - the first item of stream s1 adds root group gx with task tx    *)
(*   "ss"    - the first item of stream s1 adds stream sx                     *)
EXTENDS WorkQueue
CONSTANTS NG, NT, NS, Extra
GName(i) == CASE i = 1 -> "g1" [] i = 2 -> "g2" [] i = 3 -> "g3"
TName(i) == CASE i = 1 -> "t1" [] i = 2 -> "t2" [] i = 3 -> "t3"
SName(i) == CASE i = 1 -> "s1" [] i = 2 -> "s2"
GS == {GName(i) : i \in 1..NG}
TS == {TName(i) : i \in 1..NT}
SS == {SName(i) : i \in 1..NS}
HasX == Extra # "none"
XG == IF Extra \in {"tg", "sg"} THEN {"gx"} ELSE {}
XT == IF Extra \in {"tg", "sg"} THEN {"tx"} ELSE {}
XS == IF Extra \in {"ts", "ss"} THEN {"sx"} ELSE {}
GIdx(g) == CHOOSE i \in 1..NG : GName(i) = g
\* parent forests: parent of g_i is none or an earlier group
ParentFns == {p \in [GS -> GS \cup {NoGroup}] : \A g \in GS : p[g] = NoGroup \/ GIdx(p[g]) < GIdx(g)}
GroupSeqs == {<<g>> : g \in GS} \cup ({<<a, b>> : a, b \in GS} \ {<<a, a>> : a \in GS})
Item == EmptyWork
XWork == IF Extra \in {"tg", "sg"} THEN [groups |-> <<"gx">>, tasks |-> <<"tx">>, streams |-> <<>>]
         ELSE IF Extra \in {"ts", "ss"} THEN [groups |-> <<>>, tasks |-> <<>>, streams |-> <<"sx">>]
         ELSE EmptyWork
XItem == IF Extra \in {"sg", "ss"} THEN XWork ELSE EmptyWork
\* batch shapes; the first item of the first batch of s1 carries the extra work for "sg"/"ss"
BatchShapes(first) ==
  IF Extra \in {"sg", "ss"} /\ first
  THEN {<<<<XItem>>>>, <<<<XItem, Item>>>>, <<<<XItem>>, <<Item>>>>}
  ELSE {<<>>, <<<<Item>>>>, <<<<Item, Item>>>>, <<<<Item>>, <<Item>>>>, <<<<Item>>, <<Item, Item>>>>}
Ends == {[send |-> "stop", speek |-> TRUE], [send |-> "stop", speek |-> FALSE], [send |-> "fail", speek |-> FALSE]}
Ends_1 == [send |-> "stop", speek |-> TRUE]
RECURSIVE IsAnc(_, _, _)
IsAnc(p, a, g) == p[g] # NoGroup /\ (p[g] = a \/ IsAnc(p, a, p[g]))
Antichain(p, gs) == \A i, j \in 1..Len(gs) : i # j => ~IsAnc(p, gs[i], gs[j])
SeqSet(q) == {q[i] : i \in 1..Len(q)}
\* environment assumption (discharged by the executor's plan): the groups of a task are pairwise unrelated;
\* a group added by a task's result is a child of one of that task's groups
\* ---- staged construction of cfg (each stage is a small choice; TLC's workers share the work) ----
SBFns == {f \in [SS -> UNION {BatchShapes(TRUE), BatchShapes(FALSE)}] : \A s \in SS : f[s] \in BatchShapes(s = "s1")}
Stage(k) == cfg = [stage |-> k] \/ ("stage" \in DOMAIN cfg /\ cfg.stage = k)
Rest == <<m, pulling, started, out, open, done, bad, hist>>
Choose1 == /\ cfg = [stage |-> 0]
           /\ \E p \in ParentFns, tg \in [TS -> GroupSeqs] :
                /\ \A t \in TS : Antichain(p, tg[t])
                /\ cfg' = [stage |-> 1, p |-> p, tg |-> tg]
           /\ UNCHANGED Rest
Choose2 == /\ "stage" \in DOMAIN cfg /\ cfg.stage = 1
           /\ \E ok \in [TS -> BOOLEAN], sy \in [TS -> BOOLEAN] :
                cfg' = [stage |-> 2, p |-> cfg.p, tg |-> cfg.tg, ok |-> ok, sy |-> sy]
           /\ UNCHANGED Rest
Choose3 == /\ "stage" \in DOMAIN cfg /\ cfg.stage = 2
           /\ \E sb \in SBFns, se \in [SS -> Ends],
                 xp \in (IF Extra = "tg" THEN SeqSet(cfg.tg["t1"]) ELSE {NoGroup}), xok \in (IF XT = {} THEN {TRUE} ELSE BOOLEAN),
                 xsy \in (IF XT = {} THEN {TRUE} ELSE BOOLEAN), xse \in (IF XS = {} THEN {Ends_1} ELSE Ends) :
                cfg' = [ parent |-> [g \in GS \cup XG |-> IF g \in GS THEN cfg.p[g] ELSE xp],
                         tgroups |-> [t \in TS \cup XT |-> IF t \in TS THEN cfg.tg[t] ELSE <<"gx">>],
                         tok |-> [t \in TS \cup XT |-> IF t \in TS THEN cfg.ok[t] ELSE xok],
                         tsync |-> [t \in TS \cup XT |-> IF t \in TS THEN cfg.sy[t] ELSE xsy],
                         twork |-> [t \in TS \cup XT |-> IF t = "t1" /\ Extra \in {"tg", "ts"} THEN XWork ELSE EmptyWork],
                         sbatches |-> [s \in SS \cup XS |-> IF s \in SS THEN sb[s] ELSE <<<<Item>>>>],
                         send |-> [s \in SS \cup XS |-> IF s \in SS THEN se[s].send ELSE xse.send],
                         speek |-> [s \in SS \cup XS |-> IF s \in SS THEN se[s].speek ELSE xse.speek],
                         init |-> [groups |-> [i \in 1..NG |-> GName(i)], tasks |-> [i \in 1..NT |-> TName(i)], streams |-> [i \in 1..NS |-> SName(i)]] ]
           /\ UNCHANGED Rest
MCInit == /\ cfg = [stage |-> 0]
          /\ pulling = FALSE /\ started = FALSE /\ out = <<>> /\ bad = "ok" /\ done = {} /\ hist = <<>>
          /\ m = Unbuilt /\ open = {}
MCNext == Choose1 \/ Choose2 \/ Choose3 \/ Next
ASSUME (Extra \in {"tg", "ts"} => NT >= 1) /\ (Extra \in {"sg", "ss"} => NS >= 1)
=============================================================================
