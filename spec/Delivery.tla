------------------------------ MODULE Delivery ------------------------------
(* P-spec: the incremental delivery protocol at payload level (C05, clauses   *)
(* D1-D7) and reassembly (C04), evaluated as a fold over the payloads of one  *)
(* recorded run.  Implementation-agnostic: it mentions only what a client of  *)
(* experimental_execute_incrementally can observe.                             *)
(*                                                                             *)
(* record: [initial, subsequent: Seq(payload), parents: [label -> enclosing    *)
(*          label or ""], ref, refnf: value, refclean: BOOLEAN, complete: BOOLEAN, *)
(*          strict: BOOLEAN]                                                    *)
(* payload: [data, pending: Seq([id, path, label]),                            *)
(*           incremental: Seq([k: "d"|"s", id, sub, data, items, errs]),       *)
(*           completed: Seq([id, err: BOOLEAN]), errs: Seq(path), hasNext]     *)
(* ref = the response of the same operation with @defer/@stream disabled and   *)
(* error propagation disabled; refclean = the plain (propagating) reference is *)
(* error-free, or propagation is disabled for the operation.                   *)
EXTENDS Naturals, Sequences, FiniteSets, TLC

Null == [t |-> "null"]
Missing == [t |-> "missing"]

\* ---- operations on tagged JSON values --------------------------------------
RECURSIVE KvGet(_, _)
KvGet(kv, k) == IF kv = <<>> THEN Missing ELSE IF kv[1][1] = k THEN kv[1][2] ELSE KvGet(Tail(kv), k)
RECURSIVE KvSet(_, _, _)
KvSet(kv, k, v) == IF kv = <<>> THEN <<<<k, v>>>>
                   ELSE IF kv[1][1] = k THEN <<<<k, v>>>> \o Tail(kv) ELSE <<kv[1]>> \o KvSet(Tail(kv), k, v)
KvKeys(kv) == {kv[i][1] : i \in 1..Len(kv)}
Child(v, e) ==
  IF "s" \in DOMAIN e THEN (IF v.t = "o" THEN KvGet(v.kv, e.s) ELSE Missing)
  ELSE (IF v.t = "l" /\ e.i + 1 <= Len(v.v) THEN v.v[e.i + 1] ELSE Missing)
RECURSIVE GetAt(_, _)
GetAt(v, path) == IF path = <<>> THEN v ELSE IF v.t = "missing" THEN Missing ELSE GetAt(Child(v, Head(path)), Tail(path))
RECURSIVE UpdateAt(_, _, _)
UpdateAt(v, path, new) ==    \* precondition: GetAt(v, path) exists
  IF path = <<>> THEN new
  ELSE LET e == Head(path) IN
       IF "s" \in DOMAIN e THEN [v EXCEPT !.kv = KvSet(@, e.s, UpdateAt(KvGet(@, e.s), Tail(path), new))]
       ELSE [v EXCEPT !.v[e.i + 1] = UpdateAt(@, Tail(path), new)]
RECURSIVE MergeKv(_, _)
MergeKv(kv, add) == IF add = <<>> THEN kv ELSE MergeKv(KvSet(kv, add[1][1], add[1][2]), Tail(add))
IsPrefix(p, q) == Len(p) <= Len(q) /\ SubSeq(q, 1, Len(p)) = p

RECURSIVE EqUnordered(_, _)
EqUnordered(a, b) ==
  IF a.t # b.t THEN FALSE
  ELSE IF a.t = "o" THEN /\ KvKeys(a.kv) = KvKeys(b.kv)
                          /\ Len(a.kv) = Len(b.kv)
                          /\ \A i \in 1..Len(a.kv) : EqUnordered(a.kv[i][2], KvGet(b.kv, a.kv[i][1]))
  ELSE IF a.t = "l" THEN Len(a.v) = Len(b.v) /\ \A i \in 1..Len(a.v) : EqUnordered(a.v[i], b.v[i])
  ELSE a = b

\* ---- C04: the Withheld relation ----------------------------------------------
\* a = assembled, r = non-propagating reference, at path p.
\* failedPaths = paths of ids completed with errors; errPaths = all error paths seen.
\* Returns "ok" or the name of the first broken clause.
RECURSIVE Withheld(_, _, _, _, _)
Withheld(a, r, p, failedPaths, errPaths) ==
  IF a.t = "null" THEN
     IF r.t = "null" THEN "ok"
     ELSE IF \E e \in errPaths : IsPrefix(p, e) THEN "ok"          \* a nulled position is accounted for by an error at or below it
     ELSE "C04-null-without-error"
  \* a list whose source fails mid-way is null as a whole in the reference, while the stream has already delivered its
  \* head and reports the failure by completing the stream with errors (deliberate reading, see DESIGN C04)
  ELSE IF a.t = "l" /\ r.t = "null" /\ p \in failedPaths THEN "ok"
  ELSE IF a.t # r.t THEN "C04-value-differs-from-reference"
  ELSE IF a.t = "o" THEN
     IF ~(KvKeys(a.kv) \subseteq KvKeys(r.kv)) THEN "C04-key-not-in-reference"
     ELSE IF KvKeys(a.kv) # KvKeys(r.kv) /\ ~(\E f \in failedPaths : IsPrefix(f, p)) THEN "C04-field-missing-without-failed-fragment"
     ELSE LET bad == {i \in 1..Len(a.kv) : Withheld(a.kv[i][2], KvGet(r.kv, a.kv[i][1]), Append(p, [s |-> a.kv[i][1]]), failedPaths, errPaths) # "ok"}
          IN IF bad = {} THEN "ok"
             ELSE LET i == CHOOSE j \in bad : TRUE IN Withheld(a.kv[i][2], KvGet(r.kv, a.kv[i][1]), Append(p, [s |-> a.kv[i][1]]), failedPaths, errPaths)
  ELSE IF a.t = "l" THEN
     IF Len(a.v) > Len(r.v) THEN "C04-list-longer-than-reference"
     ELSE IF Len(a.v) < Len(r.v) /\ ~(\E f \in failedPaths : IsPrefix(f, p)) THEN "C04-stream-tail-missing-without-failed-stream"
     ELSE LET bad == {i \in 1..Len(a.v) : Withheld(a.v[i], r.v[i], Append(p, [i |-> i - 1]), failedPaths, errPaths) # "ok"}
          IN IF bad = {} THEN "ok"
             ELSE LET i == CHOOSE j \in bad : TRUE IN Withheld(a.v[i], r.v[i], Append(p, [i |-> i - 1]), failedPaths, errPaths)
  ELSE IF a = r THEN "ok" ELSE "C04-value-differs-from-reference"

\* ---- the protocol state machine, as a fold over payloads ------------------
\* st = [open, ever, paths: id -> path, labels: id -> label, failed, data, ended, bad, errs, dup]
Viol(st, c) == IF st.bad = "ok" THEN [st EXCEPT !.bad = c] ELSE st
SeqSet(q) == {q[i] : i \in 1..Len(q)}

RECURSIVE DoPending(_, _)
DoPending(st, ps) ==
  IF ps = <<>> THEN st
  ELSE LET p == Head(ps)
           st1 == IF p.id \in st.ever THEN Viol(st, "D1-id-reused") ELSE st
       IN DoPending([st1 EXCEPT !.open = @ \cup {p.id}, !.ever = @ \cup {p.id},
                                !.paths = [id \in DOMAIN @ \cup {p.id} |-> IF id = p.id THEN p.path ELSE @[id]],
                                !.labels = [id \in DOMAIN @ \cup {p.id} |-> IF id = p.id THEN p.label ELSE @[id]]],
                    Tail(ps))

RECURSIVE DoIncremental(_, _)
DoIncremental(st, incs) ==
  IF incs = <<>> THEN st
  ELSE LET e == Head(incs) IN
       IF e.id \notin st.open THEN DoIncremental(Viol(st, "D2-data-for-non-pending-id"), Tail(incs))
       ELSE LET target == IF e.k = "d" THEN st.paths[e.id] \o e.sub ELSE st.paths[e.id]
                cur == GetAt(st.data, target)
                st1 == [st EXCEPT !.errs = @ \cup SeqSet(e.errs)]
            IN IF e.k = "d"
               THEN IF cur.t # "o" THEN DoIncremental(Viol(st1, "D3-defer-target-not-an-object"), Tail(incs))
                    ELSE IF e.data.t # "o" THEN DoIncremental(Viol(st1, "D3-defer-data-not-an-object"), Tail(incs))
                    ELSE DoIncremental([st1 EXCEPT !.data = UpdateAt(@, target, [cur EXCEPT !.kv = MergeKv(@, e.data.kv)]),
                                                   !.dup = @ \/ (KvKeys(cur.kv) \cap KvKeys(e.data.kv) # {})], Tail(incs))
               ELSE IF cur.t # "l" THEN DoIncremental(Viol(st1, "D3-stream-target-not-a-list"), Tail(incs))
                    ELSE DoIncremental([st1 EXCEPT !.data = UpdateAt(@, target, [cur EXCEPT !.v = @ \o e.items]),
                                                   !.spaths = @ \cup {target}], Tail(incs))

RECURSIVE DoCompleted(_, _)
DoCompleted(st, cs) ==
  IF cs = <<>> THEN st
  ELSE LET c == Head(cs) IN
       IF c.id \notin st.open THEN DoCompleted(Viol(st, "D4-completed-id-not-pending"), Tail(cs))
       ELSE DoCompleted([st EXCEPT !.open = @ \ {c.id}, !.failed = IF c.err THEN @ \cup {st.paths[c.id]} ELSE @,
                                   !.errs = @ \cup SeqSet(c.errs)], Tail(cs))

Step(st, p, parents) ==
  LET st0 == IF st.ended THEN Viol(st, "D7-payload-after-hasNext-false") ELSE st
      \* order inside a payload: pending, then incremental, then completed;
      \* D5 is evaluated after the payload (an enclosing fragment may complete in the same payload)
      a == DoPending([st0 EXCEPT !.errs = @ \cup SeqSet(p.errs)], p.pending)
      b0 == DoIncremental(a, p.incremental)
      \* an announced path must exist in the data assembled so far, including this payload's own incremental data
      b == IF \E q \in SeqSet(p.pending) : GetAt(b0.data, q.path).t = "missing" THEN Viol(b0, "D3-pending-path-not-in-data") ELSE b0
      c == DoCompleted(b, p.completed)
      d == IF \E q \in SeqSet(p.pending) :
                 q.label # "" /\ q.label \in DOMAIN parents /\ parents[q.label] # ""
                 /\ \E id \in c.open : c.labels[id] = parents[q.label] /\ IsPrefix(c.paths[id], q.path)
           THEN Viol(c, "D5-child-announced-while-parent-pending") ELSE c
  IN [d EXCEPT !.ended = ~p.hasNext]

RECURSIVE Run(_, _, _)
Run(st, ps, parents) == IF ps = <<>> THEN st ELSE Run(Step(st, Head(ps), parents), Tail(ps), parents)

Final(tr) ==
  LET st0 == [open |-> {}, ever |-> {}, paths |-> <<>>, labels |-> <<>>, failed |-> {}, errs |-> {}, dup |-> FALSE, spaths |-> {},
              data |-> tr.initial.data, ended |-> FALSE, bad |-> "ok"]
  IN Run(st0, <<tr.initial>> \o tr.subsequent, tr.parents)

\* D6: stream items arrive in list order without gaps or repeats - the list assembled at a path that received
\* stream items is, item by item, a prefix of the list the source produces (tr.refnf: the non-propagating reference
\* computed with source failures switched off; an item may be nulled by an error at or below it, and fields of
\* fragments deferred inside an item may still be missing)
StreamsInOrder(tr, fin) ==
  \A p \in fin.spaths :
     LET a == GetAt(fin.data, p) rn == GetAt(tr.refnf, p) IN
     rn.t = "l" => a.t = "l" /\ Withheld(a, rn, p, {p}, fin.errs) = "ok"

\* C05 verdict for one recorded run
ProtocolClause(tr) ==
  LET fin == Final(tr) IN
  IF tr.initial.incremental # <<>> \/ tr.initial.completed # <<>> THEN "D2-initial-payload-carries-incremental"
  ELSE IF fin.bad # "ok" THEN fin.bad
  ELSE IF ~StreamsInOrder(tr, fin) THEN "D6-stream-items-not-a-prefix-of-the-source-list"
  ELSE IF tr.complete /\ ~fin.ended THEN "D7-stream-ended-without-hasNext-false"
  \* nothing can happen any more (every external operation completed, a pull outstanding) yet the last payload never came
  ELSE IF tr.stalled /\ ~fin.ended THEN "D4-delivery-stalled-with-pending-ids"
  ELSE IF fin.ended /\ fin.open # {} THEN "D4-open-ids-at-the-end"
  ELSE "ok"

\* C04 verdict for one recorded run that was consumed to the end
AssemblyClause(tr) ==
  LET fin == Final(tr) IN
  IF fin.bad # "ok" \/ ~fin.ended THEN "ok"      \* protocol violations are C05's; partial runs are not assembled
  ELSE IF tr.refclean /\ fin.failed = {} THEN
       (IF ~EqUnordered(fin.data, tr.ref) THEN "C04-assembled-differs-from-reference" ELSE "ok")
  \* with a clean reference nothing can fail - except a stream whose source raised: the reference is null there
  ELSE IF tr.refclean /\ \E f \in fin.failed : GetAt(tr.ref, f) # Null THEN "C04-fragment-failed-although-reference-clean"
  ELSE Withheld(fin.data, tr.ref, <<>>, fin.failed, fin.errs)

\* D6 (streams): the assembled list at every stream path is a prefix of the reference list (partial runs too)
DupDelivered(tr) == Final(tr).dup
=============================================================================
