------------------------------ MODULE ValidateV ------------------------------
EXTENDS ValidateLaws, Json, IOUtils
Cases == JsonDeserialize(IOEnv.CASES)
VARIABLE i
Init == i \in 1..Len(Cases)
Next == UNCHANGED i
Check == LET cl == Clause(Cases[i]) IN cl = "ok" \/ PrintT(ToJson([viol |-> i, clause |-> cl]))
=============================================================================
