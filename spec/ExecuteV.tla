------------------------------ MODULE ExecuteV ------------------------------
(* V direction for C02 (and the sync reference of C03/C07): recorded real     *)
(* executions [schema, doc, vars, root, response, calls] evaluated against    *)
(* the specification's algorithm (Execute.tla).                                *)
EXTENDS Execute, Json, IOUtils
Cases == JsonDeserialize(IOEnv.CASES)
VARIABLE i
Init == i \in 1..Len(Cases)
Next == UNCHANGED i
Clause(c) ==
  LET r == Execute(c) IN
  IF r.requestError # c.response.requestError THEN "request-error-differs"
  ELSE IF r.requestError THEN "ok"
  ELSE IF r.data # c.response.data THEN "data-differs"
  ELSE IF SeqSet(r.errors) # SeqSet(c.response.errors) THEN "error-positions-differ"
  ELSE IF Len(c.response.errors) # Cardinality(SeqSet(r.errors)) THEN "error-count-differs"
  ELSE IF \E k \in 1..Len(c.calls) : ~(\E j \in 1..Len(r.calls) : r.calls[j] = c.calls[k]) THEN "resolver-arguments-differ"
  \* C13: with data that conforms to the schema the only possible errors are the ones the specification defers to run
  \* time (a null variable given as a whole non-null argument that validation allowed because of a default): argument
  \* coercion fails and the resolver is not called
  ELSE IF c.conforming /\ \E k \in 1..Len(c.response.errors) : \E j \in 1..Len(c.calls) : c.calls[j].path = c.response.errors[k] THEN "error-although-data-conforms"
  ELSE IF c.conforming /\ \E j \in 1..Len(r.calls) : "failed" \in DOMAIN r.calls[j] /\ ~r.calls[j].legit THEN "argument-coercion-fails-where-validation-should-have-rejected"
  ELSE IF Len(c.calls) # Cardinality({j \in 1..Len(r.calls) : "failed" \notin DOMAIN r.calls[j]}) THEN "drift-call-count"
  ELSE "ok"
Check == LET c == Cases[i] cl == Clause(c) IN
         cl = "ok" \/ PrintT(ToJson([viol |-> i, clause |-> cl, spec |-> [data |-> Execute(c).data, errors |-> Execute(c).errors]]))
=============================================================================
