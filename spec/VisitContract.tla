--------------------------- MODULE VisitContract ---------------------------
(* P-spec for C11: the documented contract of visit(), defined recursively    *)
(* (not as the explicit-stack loop the implementation uses).                  *)
(*                                                                             *)
(* tree:  [id, kind, fields: Seq([name, many: BOOLEAN, kids: Seq(tree)])]      *)
(*        a single-valued field has many = FALSE and 0 or 1 kid.               *)
(* program: Seq([ph: "enter"|"leave", id, d: "skip"|"break"|"remove"|"replace",*)
(*        rep: tree])  -- the decision a scripted visitor returns at a node.   *)
(* Contract (documentation of visit(), graphql-js reference):                  *)
(*  - enter each node reachable through node-valued fields once, in document   *)
(*    order, leave it after its children;                                      *)
(*  - key/path/ancestors describe the position: a list-valued field is a level *)
(*    of its own (path gets the field name and the index, the tuple itself is  *)
(*    an ancestor of its items);                                               *)
(*  - enter: skip -> children and leave are not visited; remove -> the node    *)
(*    is deleted, no leave; replace -> traversal continues into the            *)
(*    replacement; break -> traversal stops;                                   *)
(*  - leave receives the node rebuilt from its edited children; remove /       *)
(*    replace on leave edit the parent; break stops;                           *)
(*  - a removed single-valued child becomes absent, a removed list item        *)
(*    disappears from the list; nothing edited -> the very same tree.          *)
EXTENDS Naturals, Sequences, FiniteSets, TLC

NoRep == [id |-> 0, kind |-> "none", fields |-> <<>>]
Decision(prog, ph, id) ==
  IF \E k \in 1..Len(prog) : prog[k].ph = ph /\ prog[k].id = id
  THEN LET k == CHOOSE j \in 1..Len(prog) : prog[j].ph = ph /\ prog[j].id = id IN [d |-> prog[k].d, rep |-> prog[k].rep]
  ELSE [d |-> "idle", rep |-> NoRep]

Entry(ph, n, key, path, nAnc, parentId) == [ph |-> ph, id |-> n.id, kind |-> n.kind, key |-> key, path |-> path, anc |-> nAnc, parent |-> parentId]

\* result of visiting one node: [log, broke, res: "keep"|"remove"|"node", node]
R(log, broke, res, node) == [log |-> log, broke |-> broke, res |-> res, node |-> node]

RECURSIVE VisitNode(_, _, _, _, _, _, _), VisitFields(_, _, _, _, _, _, _, _), VisitItems(_, _, _, _, _, _, _, _, _)

\* n: node; key: its key in the parent ("" for the root); path; nAnc: number of ancestors the visitor is given;
\* parentId: id of the parent node, 0 for the root, -"tuple" is encoded as the owning node id + 100000
VisitNode(n, key, path, nAnc, parentId, prog, log) ==
  LET log1 == Append(log, Entry("enter", n, key, path, nAnc, parentId))
      e == Decision(prog, "enter", n.id)
  IN IF e.d = "break" THEN R(log1, TRUE, "keep", n)
     ELSE IF e.d = "skip" THEN R(log1, FALSE, "keep", n)
     ELSE IF e.d = "remove" THEN R(log1, FALSE, "remove", n)
     ELSE LET n1 == IF e.d = "replace" THEN e.rep ELSE n
              childAnc == IF parentId = 0 THEN nAnc ELSE nAnc + 1
              f == VisitFields(n1, 1, path, childAnc, prog, log1, <<>>, FALSE)
          IN IF f.broke THEN R(f.log, TRUE, "keep", n)
             ELSE LET edited == e.d = "replace" \/ f.changed
                      n2 == IF f.changed THEN [n1 EXCEPT !.fields = f.fields] ELSE n1
                      log2 == Append(f.log, Entry("leave", n2, key, path, nAnc, parentId))
                      l == Decision(prog, "leave", n1.id)   \* after an enter-replace the visitor sees the replacement
                  IN IF l.d = "break" THEN R(log2, TRUE, "keep", n)
                     ELSE IF l.d = "remove" THEN R(log2, FALSE, "remove", n)
                     ELSE IF l.d = "replace" THEN R(log2, FALSE, "node", l.rep)
                     ELSE IF edited THEN R(log2, FALSE, "node", n2) ELSE R(log2, FALSE, "keep", n)

\* fold over the fields of node n from index k; acc = new fields so far
VisitFields(n, k, path, childAnc, prog, log, acc, changed) ==
  IF k > Len(n.fields) THEN [log |-> log, broke |-> FALSE, fields |-> acc, changed |-> changed]
  ELSE LET fld == n.fields[k] IN
       IF fld.many
       THEN LET it == VisitItems(n, fld, 1, Append(path, fld.name), childAnc + 1, prog, log, <<>>, FALSE) IN
            IF it.broke THEN [log |-> it.log, broke |-> TRUE, fields |-> acc, changed |-> changed]
            ELSE VisitFields(n, k + 1, path, childAnc, prog, it.log, Append(acc, [fld EXCEPT !.kids = it.kids]), changed \/ it.changed)
       ELSE IF fld.kids = <<>> THEN VisitFields(n, k + 1, path, childAnc, prog, log, Append(acc, fld), changed)
       ELSE LET r == VisitNode(fld.kids[1], fld.name, Append(path, fld.name), childAnc, n.id, prog, log) IN
            IF r.broke THEN [log |-> r.log, broke |-> TRUE, fields |-> acc, changed |-> changed]
            ELSE LET kids2 == IF r.res = "remove" THEN <<>> ELSE IF r.res = "node" THEN <<r.node>> ELSE fld.kids
                 IN VisitFields(n, k + 1, path, childAnc, prog, r.log, Append(acc, [fld EXCEPT !.kids = kids2]), changed \/ r.res # "keep")

\* items of a list-valued field: index keys, the tuple is the parent
VisitItems(n, fld, j, path, itemAnc, prog, log, acc, changed) ==
  IF j > Len(fld.kids) THEN [log |-> log, broke |-> FALSE, kids |-> acc, changed |-> changed]
  ELSE LET ix == "#" \o ToString(j - 1)
           r == VisitNode(fld.kids[j], ix, Append(path, ix), itemAnc, n.id + 100000, prog, log) IN
       IF r.broke THEN [log |-> r.log, broke |-> TRUE, kids |-> acc, changed |-> changed]
       ELSE VisitItems(n, fld, j + 1, path, itemAnc, prog, r.log,
                       IF r.res = "remove" THEN acc ELSE IF r.res = "node" THEN Append(acc, r.node) ELSE Append(acc, fld.kids[j]),
                       changed \/ r.res # "keep")

\* shape of a tree: ids only (what the harness can project from real nodes)
RECURSIVE Shape(_)
Shape(n) == LET present == SelectSeq(n.fields, LAMBDA f : f.kids # <<>>) IN
            [id |-> n.id, fields |-> [k \in 1..Len(present) |-> [name |-> present[k].name, kids |-> [j \in 1..Len(present[k].kids) |-> Shape(present[k].kids[j])]]]]

RefVisit(tree, prog) ==
  LET r == VisitNode(tree, "", <<>>, 0, 0, prog, <<>>) IN
  [log |-> r.log,
   outcome |-> IF r.broke THEN "broke" ELSE IF r.res = "keep" THEN "same" ELSE IF r.res = "remove" THEN "removed" ELSE "edited",
   result |-> IF r.broke \/ r.res # "node" THEN Shape(tree) ELSE Shape(r.node)]
=============================================================================
