----------------------------- MODULE SchemaValid -----------------------------
(* P-spec for C20 (and the validity premise of C17-C19): the type-system      *)
(* validity rules of the GraphQL specification (section 3, "Type Validation"   *)
(* sub-sections) over abstract schemas, one named predicate per rule.          *)
(* Violations(S) is the set of names of violated rules.                        *)
(*                                                                             *)
(* S: [query, mutation, subscription: name or "", types: Seq(type),            *)
(*     directives: Seq(directive)] - see harness/gen_schema.py for the shape.  *)
EXTENDS Naturals, Sequences, FiniteSets, TLC

SeqSet(q) == {q[i] : i \in 1..Len(q)}
Builtin == {"Int", "Float", "String", "Boolean", "ID"}
TypeNames(S) == {S.types[i].name : i \in 1..Len(S.types)}
Defined(S, n) == n \in TypeNames(S)
T(S, n) == S.types[CHOOSE i \in 1..Len(S.types) : S.types[i].name = n]
Kind(S, n) == IF n \in Builtin THEN "SCALAR" ELSE IF Defined(S, n) THEN T(S, n).kind ELSE "UNKNOWN"
RECURSIVE NamedOf(_)
NamedOf(ty) == IF ty[1] = "N" THEN ty[2] ELSE NamedOf(ty[2])
IsNN(ty) == ty[1] = "NN"
IsInputType(S, ty) == Kind(S, NamedOf(ty)) \in {"SCALAR", "ENUM", "INPUT_OBJECT"}
IsOutputType(S, ty) == Kind(S, NamedOf(ty)) \in {"SCALAR", "ENUM", "OBJECT", "INTERFACE", "UNION"}
\* names are strings in the wire format (TLC has no character operations on strings): the harness passes a
\* `reserved` flag (name begins with "__") and a `deprecated` flag with every named element
HasField(t, fname) == \E i \in 1..Len(t.fields) : t.fields[i].name = fname
Field(t, fname) == t.fields[CHOOSE i \in 1..Len(t.fields) : t.fields[i].name = fname]
HasArg(f, aname) == \E i \in 1..Len(f.args) : f.args[i].name = aname
Arg(f, aname) == f.args[CHOOSE i \in 1..Len(f.args) : f.args[i].name = aname]
Required(iv) == IsNN(iv.type) /\ ~iv.hasDefault

\* ---- IsSubType (covariance of field types) ---------------------------------------------
Implements(S, n, iface) == Kind(S, n) \in {"OBJECT", "INTERFACE"} /\ iface \in SeqSet(T(S, n).interfaces)
RECURSIVE IsSubType(_, _, _)
IsSubType(S, sub, super) ==
  IF sub = super THEN TRUE
  ELSE IF IsNN(super) THEN IsNN(sub) /\ IsSubType(S, sub[2], super[2])
  ELSE IF IsNN(sub) THEN IsSubType(S, sub[2], super)
  ELSE IF super[1] = "L" THEN sub[1] = "L" /\ IsSubType(S, sub[2], super[2])
  ELSE IF sub[1] = "L" THEN FALSE
  ELSE LET a == sub[2] b == super[2] IN
       \/ (Kind(S, b) = "INTERFACE" /\ Implements(S, a, b))
       \/ (Kind(S, b) = "UNION" /\ Kind(S, a) = "OBJECT" /\ a \in SeqSet(T(S, b).members))

\* ---- validity of a default value (input coercion of a constant, spec 3.x "Input Coercion") ----
RECURSIVE ValidValue(_, _, _)
KeysOf(v) == {v.kv[i][1] : i \in 1..Len(v.kv)}
ValidValue(S, v, ty) ==
  IF IsNN(ty) THEN v.t # "null" /\ ValidValue(S, v, ty[2])
  ELSE IF v.t = "null" THEN TRUE
  ELSE IF ty[1] = "L" THEN (IF v.t = "l" THEN \A i \in 1..Len(v.v) : ValidValue(S, v.v[i], ty[2]) ELSE ValidValue(S, v, ty[2]))
  ELSE LET n == ty[2] k == Kind(S, n) IN
       IF n = "Int" THEN v.t = "i"
       ELSE IF n = "Float" THEN v.t \in {"i", "f"}
       ELSE IF n = "String" THEN v.t = "s"
       ELSE IF n = "Boolean" THEN v.t = "b"
       ELSE IF n = "ID" THEN v.t \in {"s", "i"}
       ELSE IF k = "SCALAR" THEN TRUE
       ELSE IF k = "ENUM" THEN v.t = "e" /\ \E i \in 1..Len(T(S, n).values) : T(S, n).values[i].name = v.v
       ELSE IF k = "INPUT_OBJECT" THEN
            LET d == T(S, n) fs == d.inputFields IN
            /\ v.t = "o"
            /\ \A a, b \in 1..Len(v.kv) : v.kv[a][1] = v.kv[b][1] => a = b
            /\ KeysOf(v) \subseteq {fs[i].name : i \in 1..Len(fs)}
            /\ \A i \in 1..Len(fs) :
                 IF fs[i].name \in KeysOf(v)
                 THEN ValidValue(S, v.kv[CHOOSE j \in 1..Len(v.kv) : v.kv[j][1] = fs[i].name][2], fs[i].type)
                 ELSE ~Required(fs[i])
            /\ (d.oneOf => Len(v.kv) = 1 /\ v.kv[1][2].t # "null")
       ELSE FALSE
DefaultOK(S, iv) == ~iv.hasDefault \/ ~IsInputType(S, iv.type) \/ ValidValue(S, iv.default, iv.type)

\* ---- input object cycles --------------------------------------------------------------
\* an edge io -> io2 through a non-null, non-list field cannot be broken
HardEdges(S, n) == {NamedOf(T(S, n).inputFields[i].type) : i \in {j \in 1..Len(T(S, n).inputFields) :
                      LET ty == T(S, n).inputFields[j].type IN IsNN(ty) /\ ty[2][1] = "N" /\ Kind(S, ty[2][2]) = "INPUT_OBJECT"}}
RECURSIVE Reach(_, _, _)
Reach(S, frontier, seen) == IF frontier \subseteq seen THEN seen
                            ELSE Reach(S, UNION {HardEdges(S, n) : n \in frontier \ seen}, seen \cup frontier)
InputCycle(S, n) == n \in Reach(S, HardEdges(S, n), {})

\* ---- default value cycles (spec 3.10, InputObjectDefaultValueHasCycle) ---------------------
\* Coercing the empty object to an input object type applies the defaults of the fields that are not given, and
\* so on inside those defaults: a field default that is reached again while it is being applied never ends.
\* vis = the fields <<type, field>> whose default is being applied
RECURSIVE ObjDefaultCycle(_, _, _, _)
ObjDefaultCycle(S, n, v, vis) ==
  IF v.t = "l" THEN \E k \in 1..Len(v.v) : ObjDefaultCycle(S, n, v.v[k], vis)
  ELSE IF v.t # "o" THEN FALSE
  ELSE \E i \in 1..Len(T(S, n).inputFields) :
         LET f == T(S, n).inputFields[i] nt == NamedOf(f.type) IN
         /\ Kind(S, nt) = "INPUT_OBJECT"
         /\ IF f.name \in KeysOf(v)
            THEN ObjDefaultCycle(S, nt, v.kv[CHOOSE j \in 1..Len(v.kv) : v.kv[j][1] = f.name][2], vis)
            ELSE /\ f.hasDefault
                 /\ (<<n, f.name>> \in vis \/ ObjDefaultCycle(S, nt, f.default, vis \cup {<<n, f.name>>}))
DefaultCycle(S, n) == ObjDefaultCycle(S, n, [t |-> "o", kv |-> <<>>], {})

\* ---- the rules ------------------------------------------------------------------------
InputValueProblems(S, ivs, what) ==
  UNION { (IF ~IsInputType(S, ivs[i].type) THEN {what \o "-type-not-input"} ELSE {})
          \cup (IF Required(ivs[i]) /\ ivs[i].deprecated THEN {what \o "-required-deprecated"} ELSE {})
          \cup (IF ~DefaultOK(S, ivs[i]) THEN {what \o "-default-invalid"} ELSE {})
          \cup (IF ivs[i].reserved THEN {"reserved-name"} ELSE {})
        : i \in 1..Len(ivs) }

ImplProblems(S, t, ifname) ==
  IF Kind(S, ifname) # "INTERFACE" THEN {"implements-non-interface"}
  ELSE LET it == T(S, ifname) IN
    (IF ifname = t.name THEN {"implements-itself"} ELSE {})
    \cup (IF \E q \in SeqSet(it.interfaces) : q # t.name /\ q \notin SeqSet(t.interfaces) THEN {"transitive-interface-missing"} ELSE {})
    \cup UNION { LET f == it.fields[i] IN
                 IF ~HasField(t, f.name) THEN {"interface-field-missing"}
                 ELSE LET g == Field(t, f.name) IN
                      (IF ~IsSubType(S, g.type, f.type) THEN {"interface-field-type"} ELSE {})
                      \cup (IF \E a \in 1..Len(f.args) : ~HasArg(g, f.args[a].name) THEN {"interface-arg-missing"} ELSE {})
                      \cup (IF \E a \in 1..Len(f.args) : HasArg(g, f.args[a].name) /\ Arg(g, f.args[a].name).type # f.args[a].type THEN {"interface-arg-type"} ELSE {})
                      \cup (IF \E a \in 1..Len(g.args) : ~HasArg(f, g.args[a].name) /\ Required(g.args[a]) THEN {"extra-required-arg"} ELSE {})
                      \cup (IF g.deprecated /\ ~f.deprecated THEN {"implementation-deprecated-but-interface-not"} ELSE {})
               : i \in 1..Len(it.fields) }

TypeProblems(S, t) ==
  (IF t.reserved THEN {"reserved-name"} ELSE {}) \cup
  CASE t.kind \in {"OBJECT", "INTERFACE"} ->
         (IF t.fields = <<>> THEN {"no-fields"} ELSE {})
         \cup UNION { (IF ~IsOutputType(S, t.fields[i].type) THEN {"field-type-not-output"} ELSE {})
                      \cup (IF t.fields[i].reserved THEN {"reserved-name"} ELSE {})
                      \cup InputValueProblems(S, t.fields[i].args, "arg") : i \in 1..Len(t.fields) }
         \cup (IF \E a, b \in 1..Len(t.interfaces) : a # b /\ t.interfaces[a] = t.interfaces[b] THEN {"implements-twice"} ELSE {})
         \cup UNION { ImplProblems(S, t, t.interfaces[i]) : i \in 1..Len(t.interfaces) }
    [] t.kind = "UNION" ->
         (IF t.members = <<>> THEN {"union-empty"} ELSE {})
         \cup (IF \E a, b \in 1..Len(t.members) : a # b /\ t.members[a] = t.members[b] THEN {"union-member-twice"} ELSE {})
         \cup (IF \E a \in 1..Len(t.members) : Kind(S, t.members[a]) # "OBJECT" THEN {"union-member-not-object"} ELSE {})
    [] t.kind = "ENUM" ->
         (IF t.values = <<>> THEN {"enum-empty"} ELSE {})
         \cup (IF \E a \in 1..Len(t.values) : t.values[a].reserved THEN {"reserved-name"} ELSE {})
    [] t.kind = "INPUT_OBJECT" ->
         (IF t.inputFields = <<>> THEN {"input-empty"} ELSE {})
         \cup InputValueProblems(S, t.inputFields, "input-field")
         \cup (IF t.oneOf /\ \E a \in 1..Len(t.inputFields) : IsNN(t.inputFields[a].type) THEN {"oneof-non-nullable"} ELSE {})
         \cup (IF t.oneOf /\ \E a \in 1..Len(t.inputFields) : t.inputFields[a].hasDefault THEN {"oneof-default"} ELSE {})
         \cup (IF InputCycle(S, t.name) THEN {"input-cycle"} ELSE {})
         \cup (IF DefaultCycle(S, t.name) THEN {"default-cycle"} ELSE {})
    [] OTHER -> {}

RootProblems(S) ==
  (IF S.query = "" THEN {"root-query-missing"} ELSE IF Kind(S, S.query) # "OBJECT" THEN {"root-not-object"} ELSE {})
  \cup (IF S.mutation # "" /\ Kind(S, S.mutation) # "OBJECT" THEN {"root-not-object"} ELSE {})
  \cup (IF S.subscription # "" /\ Kind(S, S.subscription) # "OBJECT" THEN {"root-not-object"} ELSE {})
  \cup (IF (S.query # "" /\ S.query \in {S.mutation, S.subscription}) \/ (S.mutation # "" /\ S.mutation = S.subscription) THEN {"roots-not-distinct"} ELSE {})

DirectiveProblems(S) ==
  UNION { (IF S.directives[i].locations = <<>> THEN {"directive-no-locations"} ELSE {})
          \cup (IF S.directives[i].reserved THEN {"reserved-name"} ELSE {})
          \cup InputValueProblems(S, S.directives[i].args, "arg") : i \in 1..Len(S.directives) }

Violations(S) == RootProblems(S) \cup DirectiveProblems(S) \cup UNION { TypeProblems(S, S.types[i]) : i \in 1..Len(S.types) }
SchemaValid(S) == Violations(S) = {}
=============================================================================
