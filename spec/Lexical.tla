------------------------------ MODULE Lexical ------------------------------
(* P-spec: the lexical grammar of GraphQL (specification section 2.1) as a   *)
(* total function over sequences of code points.  Offsets are 0-based.       *)
(* Shared by C01, C08, C09, C10.  A Python str is a sequence of code points;  *)
(* surrogate code points may occur in it: a high surrogate followed by a low  *)
(* one is accepted as one supplementary source character occupying two        *)
(* positions, a lone surrogate is not a source character.                      *)
EXTENDS Naturals, Sequences, FiniteSets, TLC, Json

\* ---- character classes (code points) ---------------------------------------
LF == 10  CR == 13  TAB == 9  SP == 32  BOM == 65279  COMMA == 44  HASH == 35
QUOTE == 34  BSLASH == 92  DOT == 46  MINUS == 45  PLUS == 43  LBRACE == 123  RBRACE == 125
IsDigit(c)     == c \in 48..57
IsLetter(c)    == c \in 65..90 \/ c \in 97..122
IsNameStart(c) == IsLetter(c) \/ c = 95
IsNameCont(c)  == IsNameStart(c) \/ IsDigit(c)
IsHex(c)       == IsDigit(c) \/ c \in 65..70 \/ c \in 97..102
HexVal(c)      == IF IsDigit(c) THEN c - 48 ELSE IF c \in 65..70 THEN c - 55 ELSE c - 87
IsSurrogate(c) == c \in 55296..57343
IsHigh(c)      == c \in 55296..56319
IsLow(c)       == c \in 56320..57343
IsScalar(c)    == c \in 0..1114111 /\ ~IsSurrogate(c)
Punct == {33, 36, 38, 40, 41, 58, 61, 64, 91, 93, 123, 124, 125}   \* ! $ & ( ) : = @ [ ] { | }
EOFc == 1114112                                                    \* pseudo code point for "end of input"

At(s, i) == IF i < Len(s) THEN s[i + 1] ELSE EOFc                 \* i is a 0-based offset
Sub(s, a, b) == SubSeq(s, a + 1, b)                                \* code points in [a, b)

Tok(kind, a, b, v) == [err |-> FALSE, kind |-> kind, start |-> a, end |-> b, value |-> v]
Err(at) == [err |-> TRUE, kind |-> "ERR", start |-> at, end |-> at, value |-> <<>>]

\* ---- names, comments, numbers ------------------------------------------------
RECURSIVE NameEnd(_, _)
NameEnd(s, i) == IF IsNameCont(At(s, i)) THEN NameEnd(s, i + 1) ELSE i
RECURSIVE CommentEnd(_, _)
CommentEnd(s, i) == IF At(s, i) \in {LF, CR, EOFc} THEN i
                    ELSE IF IsScalar(At(s, i)) \/ (IsHigh(At(s, i)) /\ IsLow(At(s, i + 1))) THEN CommentEnd(s, IF IsScalar(At(s, i)) THEN i + 1 ELSE i + 2)
                    ELSE i
RECURSIVE DigitsEnd(_, _)
DigitsEnd(s, i) == IF IsDigit(At(s, i)) THEN DigitsEnd(s, i + 1) ELSE i

\* returns a token or an error; follows IntValue / FloatValue with their look-ahead restrictions
Number(s, a) ==
  LET i0 == IF At(s, a) = MINUS THEN a + 1 ELSE a IN
  IF ~IsDigit(At(s, i0)) THEN Err(i0)
  ELSE LET zero == At(s, i0) = 48
           i1 == IF zero THEN i0 + 1 ELSE DigitsEnd(s, i0)
       IN IF zero /\ IsDigit(At(s, i1)) THEN Err(i1)
          ELSE LET hasFrac == At(s, i1) = DOT
                   fracBad == hasFrac /\ ~IsDigit(At(s, i1 + 1))
                   i2 == IF hasFrac /\ ~fracBad THEN DigitsEnd(s, i1 + 1) ELSE i1
               IN IF fracBad THEN Err(i1 + 1)
                  ELSE LET hasExp == At(s, i2) \in {69, 101}
                           e1 == IF hasExp /\ At(s, i2 + 1) \in {PLUS, MINUS} THEN i2 + 2 ELSE i2 + 1
                           expBad == hasExp /\ ~IsDigit(At(s, e1))
                           i3 == IF hasExp /\ ~expBad THEN DigitsEnd(s, e1) ELSE i2
                       IN IF expBad THEN Err(e1)
                          ELSE IF At(s, i3) = DOT \/ IsNameStart(At(s, i3)) THEN Err(i3)
                          ELSE Tok(IF hasFrac \/ hasExp THEN "Float" ELSE "Int", a, i3, Sub(s, a, i3))

\* ---- strings ------------------------------------------------------------------
EscChar(c) == CASE c = QUOTE -> QUOTE [] c = BSLASH -> BSLASH [] c = 47 -> 47 [] c = 98 -> 8 [] c = 102 -> 12
                [] c = 110 -> 10 [] c = 114 -> 13 [] c = 116 -> 9 [] OTHER -> EOFc
Hex4Ok(s, i) == \A k \in 0..3 : IsHex(At(s, i + k))
Hex4(s, i) == HexVal(At(s, i)) * 4096 + HexVal(At(s, i + 1)) * 256 + HexVal(At(s, i + 2)) * 16 + HexVal(At(s, i + 3))

\* variable-width escape \u{X...}: i points at the first hex digit; returns <<ok, value, next>>
RECURSIVE VarHex2(_, _, _, _)
VarHex2(s, i, acc, n) ==
  IF At(s, i) = RBRACE THEN (IF n >= 1 /\ IsScalar(acc) THEN <<TRUE, acc, i + 1>> ELSE <<FALSE, 0, 0>>)
  ELSE IF IsHex(At(s, i)) /\ n < 8 /\ acc <= 1114111 THEN VarHex2(s, i + 1, acc * 16 + HexVal(At(s, i)), n + 1)
  ELSE <<FALSE, 0, 0>>

\* i points at the backslash; returns <<ok, Seq(code points), next>>
Escape(s, i) ==
  LET c == At(s, i + 1) IN
  IF c = 117 THEN                                            \* \u
     IF At(s, i + 2) = LBRACE THEN LET r == VarHex2(s, i + 3, 0, 0) IN IF r[1] THEN <<TRUE, <<r[2]>>, r[3]>> ELSE <<FALSE, <<>>, i>>
     ELSE IF ~Hex4Ok(s, i + 2) THEN <<FALSE, <<>>, i>>
     ELSE LET v == Hex4(s, i + 2) IN
          IF ~IsSurrogate(v) THEN <<TRUE, <<v>>, i + 6>>
          ELSE IF IsHigh(v) /\ At(s, i + 6) = BSLASH /\ At(s, i + 7) = 117 /\ Hex4Ok(s, i + 8) /\ IsLow(Hex4(s, i + 8))
               THEN <<TRUE, <<65536 + (v - 55296) * 1024 + (Hex4(s, i + 8) - 56320)>>, i + 12>>
               ELSE <<FALSE, <<>>, i>>
  ELSE IF EscChar(c) # EOFc THEN <<TRUE, <<EscChar(c)>>, i + 2>> ELSE <<FALSE, <<>>, i>>

RECURSIVE StringBody(_, _, _, _)
StringBody(s, a, i, acc) ==
  LET c == At(s, i) IN
  IF c = QUOTE THEN Tok("String", a, i + 1, acc)
  ELSE IF c \in {LF, CR, EOFc} THEN Err(i)                    \* unterminated
  ELSE IF c = BSLASH THEN LET e == Escape(s, i) IN IF e[1] THEN StringBody(s, a, e[3], acc \o e[2]) ELSE Err(i)
  ELSE IF IsScalar(c) THEN StringBody(s, a, i + 1, Append(acc, c))
  ELSE IF IsHigh(c) /\ IsLow(At(s, i + 1)) THEN StringBody(s, a, i + 2, acc \o <<c, At(s, i + 1)>>)
  ELSE Err(i)                                                  \* lone surrogate

\* ---- block strings --------------------------------------------------------------
IsBlank(line) == \A k \in 1..Len(line) : line[k] \in {SP, TAB}
RECURSIVE Indent(_, _)
Indent(line, k) == IF k <= Len(line) /\ line[k] \in {SP, TAB} THEN Indent(line, k + 1) ELSE k - 1
Min(S) == CHOOSE x \in S : \A y \in S : x <= y
BlockStringValue(lines) ==       \* the specification's algorithm
  LET n == Len(lines)
      cands == {Indent(lines[k], 1) : k \in {j \in 2..n : ~IsBlank(lines[j])}}
      common == IF cands = {} THEN 0 ELSE Min(cands)
      ded == [k \in 1..n |-> IF k = 1 THEN lines[k] ELSE SubSeq(lines[k], common + 1, Len(lines[k]))]
      nonblank == {k \in 1..n : ~IsBlank(ded[k])}
  IN IF nonblank = {} THEN <<>>
     ELSE LET lo == Min(nonblank)  hi == CHOOSE x \in nonblank : \A y \in nonblank : y <= x
          IN [k \in 1..(hi - lo + 1) |-> ded[lo + k - 1]]
RECURSIVE JoinLF(_)
JoinLF(ls) == IF ls = <<>> THEN <<>> ELSE IF Len(ls) = 1 THEN ls[1] ELSE ls[1] \o <<LF>> \o JoinLF(Tail(ls))

RECURSIVE BlockBody(_, _, _, _, _)
BlockBody(s, a, i, lines, cur) ==
  LET c == At(s, i) IN
  IF c = EOFc THEN Err(i)
  ELSE IF c = QUOTE /\ At(s, i + 1) = QUOTE /\ At(s, i + 2) = QUOTE
       THEN Tok("BlockString", a, i + 3, JoinLF(BlockStringValue(Append(lines, cur))))
  ELSE IF c = BSLASH /\ At(s, i + 1) = QUOTE /\ At(s, i + 2) = QUOTE /\ At(s, i + 3) = QUOTE
       THEN BlockBody(s, a, i + 4, lines, cur \o <<QUOTE, QUOTE, QUOTE>>)
  ELSE IF c = LF THEN BlockBody(s, a, i + 1, Append(lines, cur), <<>>)
  ELSE IF c = CR THEN BlockBody(s, a, IF At(s, i + 1) = LF THEN i + 2 ELSE i + 1, Append(lines, cur), <<>>)
  ELSE IF IsScalar(c) THEN BlockBody(s, a, i + 1, lines, Append(cur, c))
  ELSE IF IsHigh(c) /\ IsLow(At(s, i + 1)) THEN BlockBody(s, a, i + 2, lines, cur \o <<c, At(s, i + 1)>>)
  ELSE Err(i)

\* ---- the token stream --------------------------------------------------------------
IsIgnoredChar(c) == c \in {SP, TAB, COMMA, BOM, LF, CR}
NextToken(s, i) ==          \* i is not an ignored character and not EOF
  LET c == At(s, i) IN
  IF c = HASH THEN Tok("Comment", i, CommentEnd(s, i + 1), Sub(s, i + 1, CommentEnd(s, i + 1)))
  ELSE IF c = QUOTE THEN (IF At(s, i + 1) = QUOTE /\ At(s, i + 2) = QUOTE THEN BlockBody(s, i, i + 3, <<>>, <<>>) ELSE StringBody(s, i, i + 1, <<>>))
  ELSE IF c \in Punct THEN Tok("Punct", i, i + 1, <<c>>)
  ELSE IF IsDigit(c) \/ c = MINUS THEN Number(s, i)
  ELSE IF IsNameStart(c) THEN Tok("Name", i, NameEnd(s, i + 1), Sub(s, i, NameEnd(s, i + 1)))
  ELSE IF c = DOT /\ At(s, i + 1) = DOT /\ At(s, i + 2) = DOT THEN Tok("Punct", i, i + 3, <<DOT, DOT, DOT>>)
  ELSE Err(i)

RECURSIVE LexFrom(_, _, _)
LexFrom(s, i, acc) ==
  IF i >= Len(s) THEN [ok |-> TRUE, at |-> Len(s), toks |-> acc]
  ELSE IF IsIgnoredChar(At(s, i)) THEN LexFrom(s, i + 1, acc)
  ELSE LET t == NextToken(s, i) IN
       IF t.err THEN [ok |-> FALSE, at |-> t.start, toks |-> acc]
       ELSE LexFrom(s, t.end, Append(acc, [kind |-> t.kind, start |-> t.start, end |-> t.end, value |-> t.value]))
Lex(s) == LexFrom(s, 0, <<>>)

\* ---- derived notions used by C09 ---------------------------------------------------
\* significant tokens: comments are ignored tokens
RECURSIVE Significant(_)
Significant(toks) == IF toks = <<>> THEN <<>>
                     ELSE IF Head(toks).kind = "Comment" THEN Significant(Tail(toks))
                     ELSE <<Head(toks)>> \o Significant(Tail(toks))
\* the signature of a token stream: kinds and values, no spans
Sig(toks) == LET sg == Significant(toks) IN [k \in 1..Len(sg) |-> <<sg[k].kind, sg[k].value>>]
TokenCount(s) == Len(Significant(Lex(s).toks))

\* spans are ordered and disjoint, and every gap consists of ignored characters or comments
GapIgnored(s, a, b) == \A k \in a..(b - 1) : IsIgnoredChar(At(s, k))
SpansOKr(s, r) ==
  r.ok =>
    /\ \A k \in 1..Len(r.toks) : r.toks[k].start < r.toks[k].end /\ r.toks[k].end <= Len(s)
    /\ \A k \in 1..(Len(r.toks) - 1) : r.toks[k].end <= r.toks[k + 1].start /\ GapIgnored(s, r.toks[k].end, r.toks[k + 1].start)
    /\ (r.toks # <<>> => GapIgnored(s, 0, r.toks[1].start) /\ GapIgnored(s, r.toks[Len(r.toks)].end, Len(s)))
    /\ (r.toks = <<>> => GapIgnored(s, 0, Len(s)))

SpansOK(s) == SpansOKr(s, Lex(s))

\* token boundaries: offsets at which ignored material may be inserted without touching a token
Boundaries(s) == LET r == Lex(s) IN {0, Len(s)} \cup {r.toks[k].start : k \in 1..Len(r.toks)} \cup {r.toks[k].end : k \in 1..Len(r.toks)}
Insert(s, at, filler) == Sub(s, 0, at) \o filler \o Sub(s, at, Len(s))
\* fillers: SP TAB LF CR CRLF COMMA BOM  and a comment terminated by LF
Fillers == { <<SP>>, <<TAB>>, <<LF>>, <<CR>>, <<CR, LF>>, <<COMMA>>, <<BOM>>, <<HASH, 99, LF>> }
\* inserting a filler at a boundary is invisible -- except directly after a comment (the comment
\* would swallow a filler that has no line terminator first) 
InsideComment(s, at) == LET r == Lex(s) IN \E k \in 1..Len(r.toks) : r.toks[k].kind = "Comment" /\ r.toks[k].end = at /\ r.toks[k].start < at
InsertInvisible(s) ==
  LET r == Lex(s) IN r.ok =>
    \A at \in Boundaries(s) : \A f \in Fillers :
       (InsideComment(s, at) /\ f[1] \notin {LF, CR}) \/
       LET r2 == Lex(Insert(s, at, f)) IN r2.ok /\ Sig(r2.toks) = Sig(r.toks)

\* the documented minimal form: significant tokens joined; a single space between two
\* non-punctuator tokens and before a spread that follows a non-punctuator.  Block strings are kept
\* verbatim here (the implementation re-prints them minimally; that is checked on recorded
\* outputs: StripOK).
IsPunct(t) == t.kind = "Punct"
IsSpread(t) == t.kind = "Punct" /\ t.value = <<DOT, DOT, DOT>>
RECURSIVE StripJoin(_, _, _)
StripJoin(s, toks, prevNonPunct) ==
  IF toks = <<>> THEN <<>>
  ELSE LET t == Head(toks)
           sep == IF prevNonPunct /\ (~IsPunct(t) \/ IsSpread(t)) THEN <<SP>> ELSE <<>>
       IN sep \o Sub(s, t.start, t.end) \o StripJoin(s, Tail(toks), ~IsPunct(t))
Strip(s) == StripJoin(s, Significant(Lex(s).toks), FALSE)
StripLaws(s) ==
  LET r == Lex(s) IN r.ok =>
    LET t == Strip(s) r2 == Lex(t) IN
      /\ r2.ok /\ Sig(r2.toks) = Sig(r.toks)          \* same tokens
      /\ Strip(t) = t                                    \* idempotent

\* V direction: (source, output of the real strip_ignored_characters)
StripOKr(r, t) ==
  LET r2 == Lex(t) IN
  IF ~r.ok THEN "source-does-not-lex"
  ELSE IF ~r2.ok THEN "stripped-does-not-lex"
  ELSE IF Sig(r2.toks) # Sig(r.toks) THEN "stripped-tokens-differ"
  ELSE "ok"
StripOK(s, t) == StripOKr(Lex(s), t)
\* shape of a stripped text (reported as drift only): no comments, no leading/trailing ignored
\* material, and between two tokens exactly the separator the documented rule prescribes
StripShape(t) ==
  LET r == Lex(t) IN r.ok /\ Significant(r.toks) = r.toks /\
    /\ (r.toks # <<>> => r.toks[1].start = 0 /\ r.toks[Len(r.toks)].end = Len(t))
    /\ (r.toks = <<>> => t = <<>>)
    /\ \A k \in 1..(Len(r.toks) - 1) :
         LET need == ~IsPunct(r.toks[k]) /\ (~IsPunct(r.toks[k + 1]) \/ IsSpread(r.toks[k + 1])) IN
         IF need THEN r.toks[k + 1].start = r.toks[k].end + 1 /\ At(t, r.toks[k].end) = SP
         ELSE r.toks[k].end = r.toks[k + 1].start

\* ---- block string values (C08) -------------------------------------------------------
\* split a value at LF (values never contain other terminators once lexed)
RECURSIVE SplitLF(_, _, _)
SplitLF(v, k, cur) == IF k > Len(v) THEN <<cur>>
                      ELSE IF v[k] = LF THEN <<cur>> \o SplitLF(v, k + 1, <<>>) ELSE SplitLF(v, k + 1, Append(cur, v[k]))
\* the values some block string token denotes: no CR, and the raw text v itself - or v after a leading line
\* terminator (which turns the first line of v into an ordinary line) - is mapped to v by BlockStringValue
DenotedBy(raw) == JoinLF(BlockStringValue(SplitLF(raw, 1, <<>>)))
Representable(v) == (\A k \in 1..Len(v) : v[k] # CR) /\ (DenotedBy(v) = v \/ DenotedBy(<<LF>> \o v) = v)
\* the value denoted by a source that is exactly one string token (or <<EOFc>> if it is not)
NotOneString == <<EOFc>>
StringValueOf(src) == LET r == Lex(src) IN
  IF r.ok /\ Len(r.toks) = 1 /\ r.toks[1].kind \in {"String", "BlockString"} /\ r.toks[1].start = 0 /\ r.toks[1].end = Len(src)
  THEN r.toks[1].value ELSE NotOneString
\* string token values of a source, in order
RECURSIVE StringValues(_)
StringValues(toks) == IF toks = <<>> THEN <<>>
                      ELSE IF Head(toks).kind \in {"String", "BlockString"} THEN <<Head(toks).value>> \o StringValues(Tail(toks))
                      ELSE StringValues(Tail(toks))
=============================================================================
