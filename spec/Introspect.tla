------------------------------ MODULE Introspect ------------------------------
(* P-spec for C18: what the introspection types present for an abstract       *)
(* schema (IntroGraph), and what the standard introspection query returns      *)
(* under each of its 2^7 option combinations (Project of the full result).     *)
(*                                                                             *)
(* Canonical form of introspection results (produced by the harness by a       *)
(* structure-preserving rewrite of the real JSON): objects are records, lists  *)
(* sequences (a nullable list is [list |-> seq] or Nul); free text (description, deprecationReason, specifiedByURL) is    *)
(* [p |-> present, cp |-> code points]; null in an object/list/boolean         *)
(* position is Nul; a null name is ""; defaultValue is [has, v] with v the     *)
(* parsed literal.                                                             *)
(* opts: [descriptions, specifiedBy, repeatable, schemaDescription,            *)
(*        inputDeprecation, directiveDeprecation, oneOf: BOOLEAN]              *)
EXTENDS SchemaValid

Nul == [nul |-> TRUE]
NoText == [p |-> FALSE, cp |-> <<>>]
Merge(r1, r2) == [k \in DOMAIN r1 \cup DOMAIN r2 |-> IF k \in DOMAIN r1 THEN r1[k] ELSE r2[k]]
Empty == [k \in {} |-> 0]
When(c, r) == IF c THEN r ELSE Empty
Map(f(_), q) == [i \in 1..Len(q) |-> f(q[i])]

\* ---- IntroGraph: the full-options result the introspection types must present for S -------------
RECURSIVE TypeRef(_, _)
TypeRef(S, ty) ==
  IF ty[1] = "NN" THEN [kind |-> "NON_NULL", name |-> "", ofType |-> TypeRef(S, ty[2])]
  ELSE IF ty[1] = "L" THEN [kind |-> "LIST", name |-> "", ofType |-> TypeRef(S, ty[2])]
  ELSE [kind |-> Kind(S, ty[2]), name |-> ty[2], ofType |-> Nul]
NamedRef(S, n) == [kind |-> Kind(S, n), name |-> n, ofType |-> Nul]

InputValueG(S, iv) == [name |-> iv.name, description |-> iv.description, type |-> TypeRef(S, iv.type),
                       defaultValue |-> [has |-> iv.hasDefault, v |-> iv.default],
                       isDeprecated |-> iv.deprecated, deprecationReason |-> iv.deprecation]
FieldG(S, f) == [name |-> f.name, description |-> f.description, args |-> [i \in 1..Len(f.args) |-> InputValueG(S, f.args[i])],
                 type |-> TypeRef(S, f.type), isDeprecated |-> f.deprecated, deprecationReason |-> f.deprecation]
EnumValueG(v) == [name |-> v.name, description |-> v.description, isDeprecated |-> v.deprecated, deprecationReason |-> v.deprecation]
\* the object types implementing an interface (not the interfaces implementing it), or the members of a union (as a set: the order follows the type map)
Possible(S, t) ==
  IF t.kind = "UNION" THEN {t.members[i] : i \in 1..Len(t.members)}
  ELSE {S.types[i].name : i \in {j \in 1..Len(S.types) : S.types[j].kind = "OBJECT" /\ t.name \in SeqSet(S.types[j].interfaces)}}
TypeG(S, t) ==
  [kind |-> t.kind, name |-> t.name, description |-> t.description,
   specifiedByURL |-> t.specifiedBy,
   isOneOf |-> IF t.kind = "INPUT_OBJECT" THEN [b |-> t.oneOf] ELSE Nul,
   fields |-> IF t.kind \in {"OBJECT", "INTERFACE"} THEN [list |-> [i \in 1..Len(t.fields) |-> FieldG(S, t.fields[i])]] ELSE Nul,
   inputFields |-> IF t.kind = "INPUT_OBJECT" THEN [list |-> [i \in 1..Len(t.inputFields) |-> InputValueG(S, t.inputFields[i])]] ELSE Nul,
   interfaces |-> IF t.kind \in {"OBJECT", "INTERFACE"} THEN [list |-> [i \in 1..Len(t.interfaces) |-> NamedRef(S, t.interfaces[i])]] ELSE Nul,
   enumValues |-> IF t.kind = "ENUM" THEN [list |-> [i \in 1..Len(t.values) |-> EnumValueG(t.values[i])]] ELSE Nul,
   possibleTypes |-> IF t.kind \in {"INTERFACE", "UNION"} THEN [set |-> {NamedRef(S, n) : n \in Possible(S, t)}] ELSE Nul]
DirectiveG(S, d) == [name |-> d.name, description |-> d.description, isRepeatable |-> d.repeatable, isDeprecated |-> FALSE, deprecationReason |-> NoText,
                     locations |-> SeqSet(d.locations), args |-> [i \in 1..Len(d.args) |-> InputValueG(S, d.args[i])]]
RootRef(S, n) == IF n = "" THEN Nul ELSE [name |-> n, kind |-> "OBJECT"]
IntroGraph(S) == [description |-> S.description, queryType |-> RootRef(S, S.query), mutationType |-> RootRef(S, S.mutation),
                  subscriptionType |-> RootRef(S, S.subscription),
                  types |-> {TypeG(S, S.types[i]) : i \in 1..Len(S.types)},
                  directives |-> {DirectiveG(S, S.directives[i]) : i \in 1..Len(S.directives)}]

\* ---- SelfContained: every type a result refers to (at the bottom of a type reference, as interface, possible type,
\* root type or in a directive argument) is one of the types it lists - otherwise no client can rebuild the schema
RECURSIVE RefName(_)
RefName(r) == IF r.ofType = Nul THEN r.name ELSE RefName(r.ofType)
ListOf(x) == IF x = Nul THEN <<>> ELSE x.list
ArgNames(args) == {RefName(args[k].type) : k \in 1..Len(args)}
TypeRefs(t) ==
  LET fs == ListOf(t.fields) ifs == ListOf(t.inputFields) its == ListOf(t.interfaces) pts == ListOf(t.possibleTypes) IN
  {RefName(fs[k].type) : k \in 1..Len(fs)} \cup UNION {ArgNames(fs[k].args) : k \in 1..Len(fs)}
  \cup {RefName(ifs[k].type) : k \in 1..Len(ifs)} \cup {its[k].name : k \in 1..Len(its)} \cup {pts[k].name : k \in 1..Len(pts)}
Referenced(full) ==
  UNION {TypeRefs(full.types[k]) : k \in 1..Len(full.types)} \cup UNION {ArgNames(full.directives[k].args) : k \in 1..Len(full.directives)}
  \cup {r.name : r \in {full.queryType, full.mutationType, full.subscriptionType} \ {Nul}}
Listed(full) == {full.types[k].name : k \in 1..Len(full.types)}
SelfContained(full) == Referenced(full) \subseteq Listed(full)

\* ---- Project: the full result minus exactly what the switched-off options omit ----------------
Drop(r, keys) == [k \in DOMAIN r \ keys |-> r[k]]
PIV(iv, o) == Drop(iv, (IF o.descriptions THEN {} ELSE {"description"}) \cup (IF o.inputDeprecation THEN {} ELSE {"isDeprecated", "deprecationReason"}))
\* without input-value deprecation the deprecated arguments / input fields are not listed at all
PIVs(ivs, o) == LET kept == IF o.inputDeprecation THEN ivs ELSE SelectSeq(ivs, LAMBDA iv : ~iv.isDeprecated) IN [i \in 1..Len(kept) |-> PIV(kept[i], o)]
PField(f, o) == [Drop(f, IF o.descriptions THEN {} ELSE {"description"}) EXCEPT !.args = PIVs(f.args, o)]
PEnumValue(v, o) == Drop(v, IF o.descriptions THEN {} ELSE {"description"})
PType(t, o) ==
  LET t1 == [t EXCEPT !.fields = IF @ = Nul THEN Nul ELSE [list |-> [i \in 1..Len(@.list) |-> PField(@.list[i], o)]],
                      !.inputFields = IF @ = Nul THEN Nul ELSE [list |-> PIVs(@.list, o)],
                      !.enumValues = IF @ = Nul THEN Nul ELSE [list |-> [i \in 1..Len(@.list) |-> PEnumValue(@.list[i], o)]]]
  IN Drop(t1, (IF o.descriptions THEN {} ELSE {"description"}) \cup (IF o.specifiedBy THEN {} ELSE {"specifiedByURL"}) \cup (IF o.oneOf THEN {} ELSE {"isOneOf"}))
PDirective(d, o) ==
  Drop([d EXCEPT !.args = PIVs(d.args, o)],
       (IF o.descriptions THEN {} ELSE {"description"}) \cup (IF o.repeatable THEN {} ELSE {"isRepeatable"})
       \cup (IF o.directiveDeprecation THEN {} ELSE {"isDeprecated", "deprecationReason"}))
\* canonical schema result: [description?, queryType, mutationType, subscriptionType, types: Seq, directives: Seq]
Project(full, o) ==
  Drop([full EXCEPT !.types = [i \in 1..Len(@) |-> PType(@[i], o)], !.directives = [i \in 1..Len(@) |-> PDirective(@[i], o)]],
       IF o.descriptions /\ o.schemaDescription THEN {} ELSE {"description"})
=============================================================================
