----------------------------- MODULE LocationV -----------------------------
(* V direction for C10: (source, offset, reported line, reported column)     *)
(* observations recorded from the real code are evaluated against Loc.       *)
(* Characters are abstracted by the harness to "LF", "CR" or "a" (Loc        *)
(* depends on nothing else).                                                  *)
EXTENDS Location, IOUtils
Cases == JsonDeserialize(IOEnv.CASES)
VARIABLE i
VInit == i \in 1..Len(Cases) /\ s = <<>>
VNext == UNCHANGED <<i, s>>
BadChecks(c) == {k \in 1..Len(c.checks) :
                   LET ch == c.checks[k] IN
                   ~InsideCRLF(c.src, ch[1]) /\ Loc(c.src, ch[1]) # <<ch[2], ch[3]>>}
Check == LET c == Cases[i] b == BadChecks(c) IN
         b = {} \/ PrintT(ToJson([viol |-> i, clause |-> "loc", checks |-> {c.checks[k] : k \in b},
                                   want |-> {Loc(c.src, c.checks[k][1]) : k \in b}]))
=============================================================================
