----------------------------- MODULE StreamQueue -----------------------------
(* I-spec of graphql/execution/incremental/stream_item_queue.py               *)
(* (StreamItemQueue): a bounded queue fed by a producer that pushes stream    *)
(* item results in source order - settled values, or pending futures when the *)
(* item is completed early - followed by one final entry (END or the source's *)
(* failure); consumed by batches(); abortable from outside.                   *)
(* One action per await point of the code.                                     *)
EXTENDS Naturals, Sequences, FiniteSets, TLC

CONSTANTS Capacity,          \* capacity of the entry queue
          MaxItems,          \* the source yields at most MaxItems items
          FixCleanupOnce,    \* TRUE: the cleanup callback is taken (and cleared) before it is run, so it runs at most
                             \* once (repaired design, fix commit in /repo); FALSE: every cleanup path runs it (finding F11)
          FixCancelledHead   \* TRUE: batches() recognises the cancelled head item of a failed stream (repaired
                             \* design, fix commit in /repo); FALSE: the CancelledError escapes (finding F15)

VARIABLES entries,    \* Seq of [k: "val"|"fut"|"end"|"err", id]
          fut,        \* id -> "none" | "pending" | "ok" | "failed" | "cancelled"
          nextItem,   \* 1-based index of the next item the source will yield
          prod,       \* producer: "run" | "putEnd" | "putErr" | "done" | "cancelled"
          cons,       \* consumer (batches()): "get" | "waitFut" | "waitFail" | "done" | "raised" | "escaped" | "cancelled"
          held,       \* entry kept back by the peek-ahead, or NoEntry
          head,       \* the future the consumer is waiting for (its id) or 0
          delivered,  \* Seq of item ids yielded so far (flattened batches)
          flags,      \* [aborted, failed, finished, stopped]
          cleanups,   \* number of on_abort calls (the callback that closes the source)
          extAbort     \* an external abort() has been requested
vars == <<entries, fut, nextItem, prod, cons, held, head, delivered, flags, cleanups, extAbort>>

Items == 1..MaxItems
NoEntry == [k |-> "none", id |-> 0]
Val(i) == [k |-> "val", id |-> i]
Fut(i) == [k |-> "fut", id |-> i]
End == [k |-> "end", id |-> 0]
Err == [k |-> "err", id |-> 0]

TypeOK == /\ Len(entries) <= Capacity
          /\ prod \in {"run", "putEnd", "putErr", "done", "cancelled"}
          /\ cons \in {"get", "waitFut", "waitFail", "done", "raised", "escaped", "cancelled"}
          /\ cleanups \in 0..3

Init == /\ entries = <<>> /\ fut = [i \in Items |-> "none"] /\ nextItem = 1
        /\ prod = "run" /\ cons = "get" /\ held = NoEntry /\ head = 0 /\ delivered = <<>>
        /\ flags = [aborted |-> FALSE, failed |-> FALSE, finished |-> FALSE, stopped |-> FALSE]
        /\ cleanups = 0 /\ extAbort = FALSE

Room == Len(entries) < Capacity
RunCleanup(c) == IF FixCleanupOnce /\ c >= 1 THEN c ELSE c + 1
CancelPending(f) == [i \in Items |-> IF f[i] = "pending" THEN "cancelled" ELSE f[i]]

\* ---- producer (_run / produce / push) ---------------------------------------------
\* the source yields an item; it is pushed settled, or as a pending future (early execution)
Push == /\ prod = "run" /\ nextItem <= MaxItems /\ Room
        /\ \E early \in BOOLEAN :
             /\ entries' = Append(entries, IF early THEN Fut(nextItem) ELSE Val(nextItem))
             /\ fut' = [fut EXCEPT ![nextItem] = IF early THEN "pending" ELSE "ok"]
        /\ nextItem' = nextItem + 1
        /\ UNCHANGED <<prod, cons, held, head, delivered, flags, cleanups, extAbort>>
\* the source is exhausted: _finished, then the final entry is put (may park on a full queue)
SourceEnd == /\ prod = "run"
             /\ prod' = "putEnd" /\ flags' = [flags EXCEPT !.finished = TRUE]
             /\ UNCHANGED <<entries, fut, nextItem, cons, held, head, delivered, cleanups, extAbort>>
\* the source raises: _aborted (and _failed), pending item futures are cancelled and settled, the cleanup
\* callback runs, then the failure entry is put (may park)
SourceFail == /\ prod = "run"
              /\ prod' = "putErr" /\ flags' = [flags EXCEPT !.aborted = TRUE, !.failed = TRUE]
              /\ fut' = CancelPending(fut) /\ cleanups' = RunCleanup(cleanups)
              /\ UNCHANGED <<entries, nextItem, cons, held, head, delivered, extAbort>>
PutFinal == /\ prod \in {"putEnd", "putErr"} /\ Room
            /\ entries' = Append(entries, IF prod = "putEnd" THEN End ELSE Err)
            /\ prod' = "done"
            /\ UNCHANGED <<fut, nextItem, cons, held, head, delivered, flags, cleanups, extAbort>>

\* ---- environment: an early executed item completes -----------------------------------
FutSettle == \E i \in Items, ok \in BOOLEAN :
               /\ fut[i] = "pending" /\ fut' = [fut EXCEPT ![i] = IF ok THEN "ok" ELSE "failed"]
               /\ UNCHANGED <<entries, nextItem, prod, cons, held, head, delivered, flags, cleanups, extAbort>>

\* ---- consumer: one iteration of batches() -----------------------------------------------
\* peek-ahead after the first entry of a batch: returns [batch, rest, held, stopped]
RECURSIVE Peek(_, _, _)
Peek(batch, rest, f) ==
  IF rest = <<>> THEN [batch |-> batch, rest |-> rest, held |-> NoEntry, stopped |-> FALSE]
  ELSE LET e == Head(rest) IN
       IF e.k = "end" THEN [batch |-> batch, rest |-> Tail(rest), held |-> e, stopped |-> TRUE]
       ELSE IF e.k = "err" \/ (e.k = "fut" /\ f[e.id] # "ok") THEN [batch |-> batch, rest |-> Tail(rest), held |-> e, stopped |-> FALSE]
       ELSE Peek(Append(batch, e.id), Tail(rest), f)

\* take the head entry (held one first)
TakeHead == IF held # NoEntry THEN [e |-> held, rest |-> entries] ELSE [e |-> Head(entries), rest |-> Tail(entries)]
CanTake == held # NoEntry \/ entries # <<>>

Deliver(first, rest) ==
  LET p == Peek(<<first>>, rest, fut) IN
  /\ delivered' = delivered \o p.batch /\ entries' = p.rest /\ held' = p.held
  /\ flags' = [flags EXCEPT !.stopped = @ \/ p.stopped]
  /\ cons' = "get" /\ head' = 0
  /\ UNCHANGED <<fut, nextItem, prod, cleanups, extAbort>>

ConsumerGet ==
  /\ cons = "get" /\ CanTake
  /\ LET t == TakeHead e == t.e IN
     CASE e.k = "end" -> /\ cons' = "done" /\ flags' = [flags EXCEPT !.stopped = TRUE] /\ entries' = t.rest /\ held' = NoEntry
                         /\ UNCHANGED <<fut, nextItem, prod, head, delivered, cleanups, extAbort>>
       [] e.k = "err" -> /\ cons' = "raised" /\ entries' = t.rest /\ held' = NoEntry
                         /\ UNCHANGED <<fut, nextItem, prod, head, delivered, flags, cleanups, extAbort>>
       [] e.k = "val" -> Deliver(e.id, t.rest)
       [] e.k = "fut" -> /\ cons' = "waitFut" /\ head' = e.id /\ entries' = t.rest /\ held' = NoEntry
                         /\ UNCHANGED <<fut, nextItem, prod, delivered, flags, cleanups, extAbort>>

\* the awaited head future is done
ConsumerFutDone ==
  /\ cons = "waitFut" /\ fut[head] # "pending"
  /\ CASE fut[head] = "ok" -> Deliver(head, entries)
       \* the item failed: _cleanup() (cancel producer, settle pending, on_abort) and re-raise
       [] fut[head] = "failed" ->
            /\ cons' = "raised" /\ head' = 0
            /\ flags' = [flags EXCEPT !.aborted = TRUE]
            /\ prod' = IF prod \in {"run", "putEnd", "putErr"} THEN "cancelled" ELSE prod
            /\ fut' = CancelPending(fut) /\ cleanups' = RunCleanup(cleanups)
            /\ UNCHANGED <<entries, nextItem, held, delivered, extAbort>>
       \* the item was cancelled
       [] fut[head] = "cancelled" ->
            /\ head' = 0
            /\ cons' = IF extAbort THEN "cancelled"                       \* the whole stream was aborted from outside
                       ELSE IF FixCancelledHead /\ flags.failed THEN "waitFail"
                       ELSE "escaped"                                      \* CancelledError escapes batches() and the pump
            /\ UNCHANGED <<entries, fut, nextItem, prod, held, delivered, flags, cleanups, extAbort>>

\* repaired design: after a cancelled head of a failed stream, discard entries until the failure entry
ConsumerWaitFail ==
  /\ cons = "waitFail" /\ entries # <<>>
  /\ LET e == Head(entries) IN
     /\ entries' = Tail(entries)
     /\ cons' = IF e.k = "err" THEN "raised" ELSE IF e.k = "end" THEN "done" ELSE "waitFail"
  /\ UNCHANGED <<fut, nextItem, prod, held, head, delivered, flags, cleanups, extAbort>>

\* ---- abort() from outside (work queue cancel / executor abort); the pump is cancelled as well ----
Abort ==
  /\ ~extAbort /\ cons \notin {"done", "raised", "escaped"}
  /\ extAbort' = TRUE
  /\ cons' = "cancelled"
  /\ IF flags.aborted THEN     \* aborted or failed before: cleanup has run; only release a parked producer
        /\ prod' = IF prod \in {"putEnd", "putErr"} THEN "cancelled" ELSE prod
        /\ UNCHANGED <<fut, cleanups, flags>>
     ELSE IF flags.finished THEN  \* finished normally: the source must not be cleaned up
        /\ prod' = IF prod \in {"putEnd", "putErr"} THEN "cancelled" ELSE prod
        /\ fut' = CancelPending(fut) /\ flags' = [flags EXCEPT !.aborted = TRUE] /\ UNCHANGED cleanups
     ELSE
        /\ prod' = IF prod = "run" THEN "cancelled" ELSE prod
        /\ fut' = CancelPending(fut) /\ flags' = [flags EXCEPT !.aborted = TRUE] /\ cleanups' = RunCleanup(cleanups)
  /\ UNCHANGED <<entries, nextItem, held, head, delivered>>

Internal == Push \/ SourceEnd \/ SourceFail \/ PutFinal \/ FutSettle \/ ConsumerGet \/ ConsumerFutDone \/ ConsumerWaitFail
Next == Internal \/ Abort
Spec == Init /\ [][Next]_vars /\ WF_vars(Internal)

\* ---- properties ----------------------------------------------------------------------
\* items are delivered in source order without gaps or repeats
OrderOK == \A k \in 1..Len(delivered) : delivered[k] = k
\* the cleanup callback (which closes the source) runs at most once, and never for a source that ended normally
\* unless the consumer-side failure path ran
CleanupOnce == cleanups <= 1
\* a failure of the source is never lost: once nothing internal can happen, the consumer has ended, raised,
\* or was cancelled by an outside abort
Quiescent == ~ENABLED Internal
NoLostFailure == Quiescent => cons \in {"done", "raised", "cancelled"}
Terminates == <>(cons \in {"done", "raised", "cancelled", "escaped"})
=============================================================================
