------------------------------ MODULE StringV ------------------------------
(* V direction for C08: string fidelity of the printer, decided by the         *)
(* specification's lexer.                                                       *)
(* record kinds:                                                                *)
(*  [kind |-> "src",  src, parsed]        a candidate source for one string      *)
(*        token; `parsed` = value the real parser produced (or <<EOFc>>)         *)
(*  [kind |-> "print", value, printed, block, printable]   a value printed by    *)
(*        the real printer (programmatic StringValueNode)                        *)
(*  [kind |-> "doc", printed, strings]    a printed document and the string      *)
(*        values of the tree it was printed from, in document order              *)
EXTENDS Lexical, IOUtils
Cases == JsonDeserialize(IOEnv.CASES)
VARIABLE i
Init == i \in 1..Len(Cases)
Next == UNCHANGED i
Clause(c) ==
  CASE c.kind = "src" ->
         IF StringValueOf(c.src) # c.parsed THEN "parsed-value-differs-from-specification" ELSE "ok"
    [] c.kind = "print" ->
         IF c.printable /\ c.block /\ ~Representable(c.value) THEN "printable-as-block-but-not-representable"
         ELSE IF (c.printable \/ ~c.block) /\ StringValueOf(c.printed) # c.value THEN "printed-literal-denotes-another-value"
         ELSE "ok"
    [] c.kind = "doc" ->
         LET r == Lex(c.printed) IN
         IF ~r.ok THEN "printed-document-does-not-lex"
         ELSE IF StringValues(r.toks) # c.strings THEN "string-values-not-preserved" ELSE "ok"
Check == LET cl == Clause(Cases[i]) IN cl = "ok" \/ PrintT(ToJson([viol |-> i, clause |-> cl]))
=============================================================================
