------------------------------- MODULE MCPlan -------------------------------
(* M + G for Plan.tla: TLC builds every document of the Plan domain with at   *)
(* most MaxNodes nodes (pre-order construction: a new node hangs below the     *)
(* last node or one of its ancestors, so every tree arises exactly once),      *)
(* checks Partition / Antichain / Closed / Nested on every complete document   *)
(* and prints it together with its plan, one JSON line each, for the replay    *)
(* into the real IncrementalExecutor.                                          *)
EXTENDS Plan, Json
CONSTANTS MaxNodes, Emit
VARIABLE nodes
Leafs == {"x", "nn"}
Objs == {"o"}
Lab(i) == "L" \o ToString(i)
HasD(name) == \E j \in 1..Len(nodes) : nodes[j].k = "D" /\ nodes[j].key = name
\* the containers on the path from the last node up to its root (a fragment definition or the operation)
RECURSIVE Spine(_, _)
Spine(D, i) == IF i = 0 THEN {0}
               ELSE (IF D[i].k \in {"I", "D"} \/ (D[i].k = "F" /\ D[i].key \in Containers) THEN {i} ELSE {})
                    \cup (IF D[i].k = "D" THEN {} ELSE Spine(D, D[i].parent))
Parents == IF nodes = <<>> THEN {0} ELSE Spine(nodes, Len(nodes))
RECURSIVE RootOf(_, _)
RootOf(D, i) == IF i = 0 THEN 0 ELSE IF D[i].k = "D" THEN i ELSE RootOf(D, D[i].parent)
\* spreads: F1 from the operation or from nowhere else; F2 from the operation or from F1 (no cycles)
SpreadOK(p, f) == LET r == RootOf(nodes, p) IN IF r = 0 THEN TRUE ELSE (nodes[r].key = "F1" /\ f = "F2")
NewNodes ==
  LET n == Len(nodes) + 1 IN
  {[k |-> "F", parent |-> p, key |-> key, lab |-> "", frag |-> ""] : p \in Parents, key \in Leafs \cup Objs}
  \cup {[k |-> "I", parent |-> p, key |-> "", lab |-> l, frag |-> ""] : p \in Parents, l \in {"", Lab(n)}}
  \cup {[k |-> "S", parent |-> p, key |-> "", lab |-> l, frag |-> f] : p \in {q \in Parents : TRUE}, l \in {"", Lab(n)}, f \in {g \in {"F1", "F2"} : \A q \in Parents : TRUE}}
  \cup {[k |-> "D", parent |-> 0, key |-> f, lab |-> "", frag |-> ""] : f \in {g \in {"F1", "F2"} : ~HasD(g) /\ (g = "F1" \/ HasD("F1"))}}
Legal(nd) == nd.k # "S" \/ SpreadOK(nd.parent, nd.frag)
Init == nodes = <<>>
Next == /\ Len(nodes) < MaxNodes
        /\ \E nd \in NewNodes : Legal(nd) /\ nodes' = Append(nodes, nd)
\* a document the library would validate: containers are not empty, spreads are defined, definitions are used
Complete(D) ==
  /\ D # <<>> /\ Kids(D, 0) # <<>>
  /\ \A i \in 1..Len(D) : (D[i].k \in {"I", "D"} \/ (D[i].k = "F" /\ D[i].key \in Containers)) => Kids(D, i) # <<>>
  /\ \A i \in 1..Len(D) : D[i].k = "S" => FragRoot(D, D[i].frag) # 0
  /\ \A i \in 1..Len(D) : D[i].k = "D" => \E j \in 1..Len(D) : D[j].k = "S" /\ D[j].frag = D[i].key
  /\ \E i \in 1..Len(D) : D[i].k \in {"I", "S"} /\ D[i].lab # ""
InvPartition == Complete(nodes) => Partition(nodes)
InvAntichain == Complete(nodes) => Antichain(nodes)
InvClosed == Complete(nodes) => Closed(nodes)
InvNested == Complete(nodes) => Nested(nodes)
Out(D) == LET R == PlanOf(D) IN
          [doc |-> D,
           groups |-> {[path |-> g.id.path, chain |-> g.id.chain, parent |-> g.parent.chain] : g \in R.groups},
           tasks |-> {[path |-> t.path, gs |-> {g.chain : g \in t.gs}, keys |-> t.keys, soon |-> t.soon] : t \in R.tasks},
           execs |-> R.execs]
InvEmit == (Emit /\ Complete(nodes)) => PrintT(ToJson(Out(nodes)))
=============================================================================
