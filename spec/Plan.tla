-------------------------------- MODULE Plan --------------------------------
(* I-spec for C04: how the incremental executor splits a request into the      *)
(* initial result and deferred execution groups.  One operator per function of *)
(* the code:                                                                   *)
(*   CollectSel      collect_fields_impl  (defer usages, the visited-fragment   *)
(*                   rule for deferred / non-deferred spreads)                  *)
(*   Filtered        get_filtered_defer_usage_set                               *)
(*   BuildPlan       build_execution_plan                                       *)
(*   NewDGM          IncrementalExecutor.get_new_delivery_group_map             *)
(*   ExecCollected   execute_collected_root_fields / execute_collected_subfields*)
(*   ExecSets        collect_execution_groups + execute_execution_group         *)
(*   ExecKeys        execute_fields (descending into object fields)             *)
(*                                                                             *)
(* Domain: one recursive object type with leaf fields x, y, nn and object      *)
(* fields o, p; no type conditions, @skip/@include or lists (Execute.tla has   *)
(* those).  A document is a node table:                                        *)
(*   [k |-> "F", parent, key]            a field (key = response key = name)   *)
(*   [k |-> "I", parent, lab]            an inline fragment; lab = "" or the    *)
(*                                       unique label of its active @defer      *)
(*   [k |-> "S", parent, frag, lab]      a spread of fragment frag              *)
(*   [k |-> "D", parent |-> 0, key]      the definition of fragment key         *)
(* parent = index of the enclosing node, 0 = the operation's selection set;    *)
(* siblings are ordered by index.                                              *)
(*                                                                             *)
(* A defer usage is the chain of labels from the outermost enclosing active    *)
(* @defer to its own (DeferUsage.parent_defer_usage = the chain without its    *)
(* last label); None = <<>>.  A delivery group is [path, chain].               *)
EXTENDS Naturals, Sequences, FiniteSets, TLC

Containers == {"o", "p"}
Min(S) == CHOOSE m \in S : \A n \in S : m <= n
RECURSIVE SortedSeq(_)
SortedSeq(S) == IF S = {} THEN <<>> ELSE LET m == Min(S) IN <<m>> \o SortedSeq(S \ {m})
Kids(D, i) == SortedSeq({j \in 1..Len(D) : D[j].parent = i /\ D[j].k # "D"})
FragRoot(D, name) == IF \E j \in 1..Len(D) : D[j].k = "D" /\ D[j].key = name
                     THEN CHOOSE j \in 1..Len(D) : D[j].k = "D" /\ D[j].key = name ELSE 0
FragNames(D) == {D[j].key : j \in {i \in 1..Len(D) : D[i].k = "D"}} \cup {D[j].frag : j \in {i \in 1..Len(D) : D[i].k = "S"}}
SeqSet(q) == {q[i] : i \in 1..Len(q)}
IsProperPrefix(a, b) == Len(a) < Len(b) /\ SubSeq(b, 1, Len(a)) = a

\* ---- collect_fields_impl ------------------------------------------------------------
\* st = [fields: Seq([n, du]), newdus: Seq(chain), vis: [fragment name -> "none" | "def" | "nondef"]]
St0(D) == [fields |-> <<>>, newdus |-> <<>>, vis |-> [f \in FragNames(D) |-> "none"]]
RECURSIVE CollectSel(_, _, _, _)
CollectSel(D, sels, du, st) ==
  IF sels = <<>> THEN st
  ELSE LET i == Head(sels)
           n == D[i]
           st1 ==
             CASE n.k = "F" -> [st EXCEPT !.fields = Append(@, [n |-> i, du |-> du])]
               [] n.k = "I" ->
                    IF n.lab = "" THEN CollectSel(D, Kids(D, i), du, st)
                    ELSE LET nd == Append(du, n.lab) IN
                         CollectSel(D, Kids(D, i), nd, [st EXCEPT !.newdus = Append(@, nd)])
               [] n.k = "S" ->
                    LET fr == FragRoot(D, n.frag) v == st.vis[n.frag] IN
                    IF fr = 0 THEN st
                    ELSE IF n.lab = ""
                         \* not deferred: skipped when already visited as a non-deferred spread; revisited after a deferred visit
                         THEN (IF v = "nondef" THEN st
                               ELSE CollectSel(D, Kids(D, fr), du, [st EXCEPT !.vis[n.frag] = "nondef"]))
                         \* deferred: skipped when visited before in either way
                         ELSE (IF v # "none" THEN st
                               ELSE LET nd == Append(du, n.lab) IN
                                    CollectSel(D, Kids(D, fr), nd, [st EXCEPT !.vis[n.frag] = "def", !.newdus = Append(@, nd)]))
       IN CollectSel(D, Tail(sels), du, st1)

\* collect_subfields: the selection sets of all field nodes of the group, one visited map for the whole call
RECURSIVE CollectSub(_, _, _)
CollectSub(D, fds, st) ==
  IF fds = <<>> THEN st ELSE CollectSub(D, Tail(fds), CollectSel(D, Kids(D, Head(fds).n), Head(fds).du, st))

KeyOf(D, fd) == D[fd.n].key
RECURSIVE KeysInOrder(_, _, _)
KeysInOrder(D, fds, seen) ==
  IF fds = <<>> THEN <<>>
  ELSE IF KeyOf(D, Head(fds)) \in seen THEN KeysInOrder(D, Tail(fds), seen)
  ELSE <<KeyOf(D, Head(fds))>> \o KeysInOrder(D, Tail(fds), seen \cup {KeyOf(D, Head(fds))})
GroupOf(D, fds, k) == SelectSeq(fds, LAMBDA fd : KeyOf(D, fd) = k)

\* ---- get_filtered_defer_usage_set -----------------------------------------------------
Filtered(fds) ==
  IF \E i \in 1..Len(fds) : fds[i].du = <<>> THEN {}
  ELSE LET S == {fds[i].du : i \in 1..Len(fds)} IN {d \in S : ~\E e \in S : IsProperPrefix(e, d)}

\* ---- build_execution_plan --------------------------------------------------------------
\* -> [init: Seq(key), sets: Seq([dus, keys: Seq(key)])] (new grouped field sets in order of first appearance)
RECURSIVE BuildPlan(_, _, _, _, _)
BuildPlan(D, fds, ks, parentDus, acc) ==
  IF ks = <<>> THEN acc
  ELSE LET k == Head(ks) f == Filtered(GroupOf(D, fds, k)) IN
       IF f = parentDus THEN BuildPlan(D, fds, Tail(ks), parentDus, [acc EXCEPT !.init = Append(@, k)])
       ELSE IF \E j \in 1..Len(acc.sets) : acc.sets[j].dus = f
            THEN LET j == CHOOSE j \in 1..Len(acc.sets) : acc.sets[j].dus = f IN
                 BuildPlan(D, fds, Tail(ks), parentDus, [acc EXCEPT !.sets[j].keys = Append(@, k)])
            ELSE BuildPlan(D, fds, Tail(ks), parentDus, [acc EXCEPT !.sets = Append(@, [dus |-> f, keys |-> <<k>>])])

\* ---- get_new_delivery_group_map ---------------------------------------------------------
\* a map is a set of <<chain, group>>; group = [path, chain]
NoMap == [none |-> TRUE, m |-> {}]
Has(map, du) == \E e \in map.m : e[1] = du
Get(map, du) == (CHOOSE e \in map.m : e[1] = du)[2]
RECURSIVE NewDGM(_, _, _, _)
NewDGM(newdus, map, path, acc) ==      \* acc = [groups: set of [id, parent], map, bad]
  IF newdus = <<>> THEN acc
  ELSE LET du == Head(newdus)
           pc == SubSeq(du, 1, Len(du) - 1)
           missing == pc # <<>> /\ ~Has(acc.map, pc)        \* delivery_group_from_defer_usage would raise KeyError
           parent == IF pc = <<>> \/ missing THEN [path |-> <<"none">>, chain |-> <<>>] ELSE Get(acc.map, pc)
           g == [path |-> path, chain |-> du]
       IN NewDGM(Tail(newdus), map, path,
                 [groups |-> acc.groups \cup {[id |-> g, parent |-> parent]},
                  map |-> [none |-> FALSE, m |-> {e \in acc.map.m : e[1] # du} \cup {<<du, g>>}],
                  bad |-> acc.bad \/ missing])

\* ---- execution ---------------------------------------------------------------------------
\* acc = [groups, tasks: set of [path, gs: set of group, keys: set, soon: BOOLEAN], execs: set of [path, key, dus], bad]
Acc0 == [groups |-> {}, tasks |-> {}, execs |-> {}, bad |-> FALSE]
RECURSIVE ExecCollected(_, _, _, _, _, _), ExecSets(_, _, _, _, _, _, _), ExecKeys(_, _, _, _, _, _, _)

\* execute_collected_root_fields / execute_collected_subfields: c = the collected fields of the object at path
ExecCollected(D, path, c, map, edus, acc) ==
  LET ks == KeysInOrder(D, c.fields, {}) IN
  IF map.none /\ c.newdus = <<>> THEN ExecKeys(D, path, c.fields, ks, NoMap, edus, acc)
  ELSE LET nm == NewDGM(c.newdus, map, path, [groups |-> {}, map |-> [none |-> FALSE, m |-> map.m], bad |-> FALSE])
           plan == BuildPlan(D, c.fields, ks, edus, [init |-> <<>>, sets |-> <<>>])
           acc1 == [acc EXCEPT !.groups = @ \cup nm.groups, !.bad = @ \/ nm.bad]
           acc2 == ExecKeys(D, path, c.fields, plan.init, nm.map, edus, acc1)
       IN ExecSets(D, path, c.fields, plan.sets, nm.map, edus, acc2)

\* collect_execution_groups: one execution group (task) per new defer-usage set, executed by a sub-executor with that set
ExecSets(D, path, fds, sets, map, edus, acc) ==
  IF sets = <<>> THEN acc
  ELSE LET s == Head(sets)
           missing == \E d \in s.dus : ~Has(map, d)
           gs == {Get(map, d) : d \in {e \in s.dus : Has(map, e)}}
           \* should_defer (early execution): a group with a defer usage that is new to this executor is primed only after the
           \* current step (soon); one whose usages all belong to the executor's own set is in the midst of executing early (now)
           soon == edus = {} \/ ~(s.dus \subseteq edus)
           acc1 == [acc EXCEPT !.tasks = @ \cup {[path |-> path, gs |-> gs, keys |-> SeqSet(s.keys), soon |-> soon]}, !.bad = @ \/ missing]
       IN ExecSets(D, path, fds, Tail(sets), map, edus, ExecKeys(D, path, fds, s.keys, map, s.dus, acc1))

\* execute_fields: every key is executed by this executor; object fields collect and execute their subfields
ExecKeys(D, path, fds, ks, map, edus, acc) ==
  IF ks = <<>> THEN acc
  ELSE LET k == Head(ks)
           acc1 == [acc EXCEPT !.execs = @ \cup {[path |-> path, key |-> k, dus |-> edus]}]
           acc2 == IF k \in Containers
                   THEN ExecCollected(D, Append(path, k), CollectSub(D, GroupOf(D, fds, k), St0(D)), map, edus, acc1)
                   ELSE acc1
       IN ExecKeys(D, path, fds, Tail(ks), map, edus, acc2)

PlanOf(D) == ExecCollected(D, <<>>, CollectSel(D, Kids(D, 0), <<>>, St0(D)), NoMap, {}, Acc0)

\* the same document with every @defer switched off
Strip(D) == [i \in 1..Len(D) |-> IF D[i].k \in {"I", "S"} THEN [D[i] EXCEPT !.lab = ""] ELSE D[i]]
Positions(R) == {<<e.path, e.key>> : e \in R.execs}

\* ---- what the plan must satisfy (checked by TLC on every document of MCPlan) ------------------
RECURSIVE Ancestors(_, _, _)
Ancestors(R, g, fuel) ==      \* the groups above g in the parent forest
  IF fuel = 0 THEN {}
  ELSE LET ps == {x.parent : x \in {y \in R.groups : y.id = g}} \ {[path |-> <<"none">>, chain |-> <<>>]} IN
       ps \cup UNION {Ancestors(R, p, fuel - 1) : p \in ps}
\* P1: every field of the reference execution is executed exactly once - in the initial part or in one execution group
Partition(D) == LET R == PlanOf(D) ref == PlanOf(Strip(D)) IN
                /\ Positions(R) = Positions(ref)
                /\ \A e1, e2 \in R.execs : (e1.path = e2.path /\ e1.key = e2.key) => e1 = e2
\* P2: the environment assumption of WorkQueue.tla (WellFormedWork): the groups of a task are pairwise unrelated
Antichain(D) == LET R == PlanOf(D) IN \A t \in R.tasks : \A g1, g2 \in t.gs : g1 # g2 => g1 \notin Ancestors(R, g2, Len(D) + 1)
\* P3: no lookup in a delivery-group map fails; every task has a group; every parent is a group that exists
Closed(D) == LET R == PlanOf(D) IN
             /\ ~R.bad
             /\ \A t \in R.tasks : t.gs # {}
             /\ \A g \in R.groups : g.parent.path = <<"none">> \/ \E h \in R.groups : h.id = g.parent
\* P4: a group sits at or below the path of its parent
Nested(D) == LET R == PlanOf(D) IN \A g \in R.groups : g.parent.path = <<"none">> \/ g.parent.path = g.id.path \/ IsProperPrefix(g.parent.path, g.id.path)

\* ---- the strict reading of "withheld" (P-level clause of C04 that needs the plan) ---------------
\* A leaf that the reference response has and the assembled response lacks, although its position was not nulled,
\* must belong only to execution groups all of whose delivery groups failed or lie below a failed group.
\* failed = the set of labels reported as completed with errors.  The chain of a defer usage names its own fragment and
\* every enclosing deferred fragment, so "the group or a group above it failed" is "some label of the chain failed".
LossExplained(D, path, key, failed) ==
  LET R == PlanOf(D)
      es == {e \in R.execs : e.path = path /\ e.key = key}
  IN \A e \in es : e.dus # {} /\ \A d \in e.dus : \E i \in 1..Len(d) : d[i] \in failed
=============================================================================
