------------------------------ MODULE Scalars ------------------------------
(* P-spec for C16: the value domains of the built-in scalars and of enums   *)
(* (specification sections 3.5.1-3.5.5 and 3.9, "Result Coercion"), as       *)
(* predicates over value descriptors.                                        *)
(*                                                                           *)
(* descriptor: [kind: "bool"|"int"|"float"|"str"|"none"|"other",             *)
(*   b: BOOLEAN (kind bool),                                                 *)
(*   cls: "fin"|"nan"|"inf" (numbers), neg: BOOLEAN, num/den: limbs of the   *)
(*   reduced exact rational (base 2^15, little endian), negzero: BOOLEAN,    *)
(*   text: Seq(code point) (kind str), numeric: "int"|"float"|"no" - whether *)
(*   the text is a strict decimal integer / GraphQL float literal, in which  *)
(*   case neg/num/den give its exact value]                                  *)
EXTENDS Naturals, Sequences, FiniteSets, TLC

\* ---- magnitudes as limb sequences (TLC integers are 32 bit) -------------------
RECURSIVE Strip0(_)
Strip0(l) == IF l # <<>> /\ l[Len(l)] = 0 THEN Strip0(SubSeq(l, 1, Len(l) - 1)) ELSE l
RECURSIVE LexLeq(_, _, _)
LexLeq(a, b, k) == IF k = 0 THEN TRUE ELSE IF a[k] < b[k] THEN TRUE ELSE IF a[k] > b[k] THEN FALSE ELSE LexLeq(a, b, k - 1)
MagLeq(a0, b0) == LET a == Strip0(a0) b == Strip0(b0) IN
                  IF Len(a) # Len(b) THEN Len(a) < Len(b) ELSE LexLeq(a, b, Len(a))
Two31 == <<0, 0, 2>>                 \* 2^31      = 2 * (2^15)^2
Two31m1 == <<32767, 32767, 1>>       \* 2^31 - 1
One == <<1>>

IsNumber(d) == d.kind \in {"int", "float"}
Finite(d) == IsNumber(d) /\ d.cls = "fin"
Integral(d) == Finite(d) /\ Strip0(d.den) = One
In32(d) == Integral(d) /\ (IF d.neg THEN MagLeq(d.num, Two31) ELSE MagLeq(d.num, Two31m1))
SameNumber(a, b) == a.cls = "fin" /\ b.cls = "fin" /\ Strip0(a.num) = Strip0(b.num) /\ Strip0(a.den) = Strip0(b.den)
                    /\ (a.neg = b.neg \/ Strip0(a.num) = <<>>)
\* the number a descriptor denotes, if any: numbers themselves, booleans as 0/1, strict numeric literals
DenotesNumber(d) == Finite(d) \/ d.kind = "bool" \/ (d.kind = "str" /\ d.numeric # "no")
DenotesInteger(d) == (Finite(d) /\ Integral(d)) \/ d.kind = "bool" \/ (d.kind = "str" /\ d.numeric = "int")
AsNumber(d) == IF d.kind = "bool" THEN [cls |-> "fin", neg |-> FALSE, num |-> IF d.b THEN <<1>> ELSE <<>>, den |-> <<1>>]
               ELSE [cls |-> "fin", neg |-> d.neg, num |-> d.num, den |-> d.den]

\* ---- the domains ------------------------------------------------------------------
InDomain(type, enumNames, out) ==
  CASE type = "Int" -> out.kind = "int" /\ In32(out)
    [] type = "Float" -> IsNumber(out) /\ Finite(out)
    [] type \in {"String", "ID"} -> out.kind = "str"
    [] type = "Boolean" -> out.kind = "bool"
    [] type = "Enum" -> out.kind = "str" /\ \E k \in 1..Len(enumNames) : enumNames[k] = out.text

\* no silent loss: when the input denotes an integer and the output is a number, they are the same number;
\* a float passes through unchanged; a number emitted as text (String/ID) spells an integer input exactly
Faithful(type, in, out) ==
  /\ ((in.kind \in {"int", "bool"} \/ (in.kind = "str" /\ in.numeric = "int" /\ type = "Int")) /\ IsNumber(out)
        => SameNumber(AsNumber(in), AsNumber(out)))
  /\ (in.kind = "float" /\ Finite(in) /\ IsNumber(out) => SameNumber(AsNumber(in), AsNumber(out)))
  /\ (type = "Boolean" /\ in.kind = "bool" => out.b = in.b)
  /\ (type \in {"String", "ID"} /\ in.kind = "str" => out.text = in.text)
  /\ (type \in {"String", "ID"} /\ in.kind = "int" /\ out.kind = "str" => out.numeric = "int" /\ SameNumber(AsNumber(in), AsNumber(out)))

\* the emitted value is accepted back by the type's input coercion with the same meaning
SameMeaning(a, b) ==
  \/ (a.kind = "bool" /\ b.kind = "bool" /\ a.b = b.b)
  \/ (IsNumber(a) /\ IsNumber(b) /\ Finite(a) /\ Finite(b) /\ SameNumber(AsNumber(a), AsNumber(b)))
  \/ (a.kind = "str" /\ b.kind = "str" /\ a.text = b.text)

\* diagnostic only (MODEL-DRIFT): decimal text is inherently approximated by a double; an integer spelled as text
\* beyond 2^53 is rounded by the Float type without an error, unlike an int of the same value
TextIntegerRounded(type, in, out) ==
  type = "Float" /\ in.kind = "str" /\ in.numeric = "int" /\ IsNumber(out) /\ ~SameNumber(AsNumber(in), AsNumber(out))

\* record: [type, enumNames, in, err, out, backErr, back, enumBackSame]
Clause(c) ==
  IF c.err THEN "ok"                                   \* a field error is always an allowed outcome
  ELSE IF ~InDomain(c.type, c.enumNames, c.out) THEN "out-of-domain"
  ELSE IF ~Faithful(c.type, c.in, c.out) THEN "precision-or-meaning-lost"
  ELSE IF c.backErr THEN "emitted-value-rejected-by-input-coercion"
  ELSE IF c.type = "Enum" /\ ~c.enumBackSame THEN "enum-name-maps-back-to-another-value"
  ELSE IF c.type # "Enum" /\ ~SameMeaning(c.back, c.out) THEN "input-coercion-changes-meaning"
  ELSE "ok"
=============================================================================
