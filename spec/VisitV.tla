------------------------------- MODULE VisitV -------------------------------
(* V direction for C11: a recorded run of the real visit() with a scripted    *)
(* visitor (tree obtained by reflection, program, call log, result shape)     *)
(* evaluated against VisitContract.tla.                                        *)
EXTENDS VisitContract, Json, IOUtils
Cases == JsonDeserialize(IOEnv.CASES)
VARIABLE i
Init == i \in 1..Len(Cases)
Next == UNCHANGED i
FirstDiff(a, b) == IF \E k \in 1..Len(a) : k > Len(b) \/ a[k] # b[k]
                   THEN CHOOSE k \in 1..Len(a) : (k > Len(b) \/ a[k] # b[k]) /\ \A j \in 1..(k - 1) : j <= Len(b) /\ a[j] = b[j]
                   ELSE Len(a) + 1
Clause(c) ==
  LET r == RefVisit(c.tree, c.prog) IN
  IF c.raised # "" THEN "visit-raised"
  ELSE IF r.log # c.log THEN "call-log-differs"
  ELSE IF r.outcome # c.outcome THEN "outcome-differs"
  ELSE IF r.outcome = "edited" /\ r.result # c.result THEN "result-tree-differs"
  ELSE IF c.mutated THEN "input-tree-mutated"
  ELSE "ok"
Check == LET c == Cases[i] cl == Clause(c) r == RefVisit(c.tree, c.prog) IN
         cl = "ok" \/ PrintT(ToJson([viol |-> i, clause |-> cl, at |-> FirstDiff(r.log, c.log), specOutcome |-> r.outcome,
                                      specEntry |-> IF FirstDiff(r.log, c.log) <= Len(r.log) THEN r.log[FirstDiff(r.log, c.log)] ELSE [ph |-> "end"]]))
=============================================================================
