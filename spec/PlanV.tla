-------------------------------- MODULE PlanV --------------------------------
(* V direction for Plan.tla: records from the real IncrementalExecutor.          *)
(* record: [doc, groups, tasks, execs (what the recording executor saw, same       *)
(*          shape as MCPlan's output), failed: set of labels completed with errors,  *)
(*          lost: Seq([path, key]) leaves of the reference that the assembled        *)
(*          response lacks although no ancestor position is null]                    *)
(* Clauses: "drift-..." compare the real plan with PlanOf(doc) (I-spec: MODEL-DRIFT);*)
(* "leaf-lost-although-a-fragment-holding-it-succeeded" is the strict reading of      *)
(* C04's "withheld" (a verdict).                                                       *)
EXTENDS Plan, Json, IOUtils
Cases == JsonDeserialize(IOEnv.CASES)
VARIABLE i
Init == i \in 1..Len(Cases)
Next == UNCHANGED i
SetOf(q) == {q[k] : k \in 1..Len(q)}
Clause(c) ==
  LET R == PlanOf(c.doc)
      mg == {[path |-> g.id.path, chain |-> g.id.chain, parent |-> g.parent.chain] : g \in R.groups}
      mt == {[path |-> t.path, gs |-> {g.chain : g \in t.gs}, keys |-> t.keys, soon |-> t.soon] : t \in R.tasks}
      rg == {[path |-> g.path, chain |-> g.chain, parent |-> g.parent] : g \in SetOf(c.groups)}
      rt == {[path |-> t.path, gs |-> SetOf(t.gs), keys |-> SetOf(t.keys), soon |-> t.soon] : t \in SetOf(c.tasks)}
      re == {[path |-> e.path, key |-> e.key, dus |-> SetOf(e.dus)] : e \in SetOf(c.execs)}
  IN IF \E k \in 1..Len(c.lost) : ~LossExplained(c.doc, c.lost[k].path, c.lost[k].key, SetOf(c.failed))
     THEN "leaf-lost-although-a-fragment-holding-it-succeeded"
     ELSE IF R.bad THEN "drift-model-lookup-fails"
     ELSE IF rg # mg THEN "drift-delivery-groups-differ"
     ELSE IF rt # mt THEN "drift-execution-groups-differ"
     ELSE IF re # R.execs THEN "drift-placement-differs"
     ELSE "ok"
Check == LET cl == Clause(Cases[i]) IN cl = "ok" \/ PrintT(ToJson([viol |-> i, clause |-> cl]))
=============================================================================
