"""Sources of end-to-end payload traces for C04/C05/C06: exhaustive re-execution (X) of small requests
and seeded random schedules (V) of generated requests."""
from __future__ import annotations

import random
import warnings

from . import increq

warnings.simplefilter("ignore", RuntimeWarning)


def fixed(query, parents, force=None, lists=None, noprop=False, p_gate=1.0):
    return {"query": query, "parents": parents, "data_seed": 7, "noprop": noprop, "p_null": 0.0, "p_raise": 0.0,
            "p_gate": p_gate, "p_aiter": 1.0, "force": force or {}, "lists": lists or {}}


G, S = "gate", "sync"
FIXED = {
    # nested defer + stream (prototype q1)
    "nested-defer-stream": fixed('query Q { a ... @defer(label:"D") { slow o { x ... @defer(label:"E") { y } } } l @stream(initialCount:1, label:"S") }',
                                 {"D": "", "E": "D", "S": ""}, force={"a": ("value", S), "o": ("value", S)}, lists={"l": (3, True, None)}),
    # the F8 shape: a field shared by a root fragment and a nested fragment, failing
    "shared-nonnull-fails": fixed('query Q { b ... @defer(label:"A") { nn } ... @defer(label:"C") { a ... @defer(label:"B") { nn } } }',
                                  {"A": "", "C": "", "B": "C"}, force={"nn": ("raise", G), "b": ("value", S), "a": ("value", G)}),
    "shared-nonnull-ok": fixed('query Q { b ... @defer(label:"A") { nn } ... @defer(label:"C") { a ... @defer(label:"B") { nn } } }',
                               {"A": "", "C": "", "B": "C"}, force={"nn": ("value", G), "b": ("value", S), "a": ("value", G)}),
    # overlapping fragments on the same object
    "overlap": fixed('query Q { o { x } ... @defer(label:"A") { o { x y } } ... @defer(label:"B") { o { y } a } }',
                     {"A": "", "B": ""}, force={"o": ("value", S)}),
    # two streams, one failing source
    "two-streams": fixed('query Q { a l @stream(initialCount:0, label:"S1") m @stream(initialCount:1, label:"S2") }',
                         {"S1": "", "S2": ""}, force={"a": ("value", S), "l": ("value", S), "m": ("value", S)},
                         lists={"l": (2, True, None), "m": (2, True, 1)}),
    # defer inside streamed objects
    "defer-in-stream": fixed('query Q { ol @stream(initialCount:0, label:"S") { x ... @defer(label:"D") { y } } }',
                             {"S": "", "D": ""}, force={"ol": ("value", S)}, lists={"ol": (2, True, None)}),
    # error propagation disabled + raising field in a deferred fragment
    "noprop-raise": fixed('query Q @experimental_disableErrorPropagation { a ... @defer(label:"D") { nn o { nx } } }',
                          {"D": ""}, force={"nn": ("raise", G), "o": ("value", S), "o/nx": ("raise", G), "a": ("value", S)}, noprop=True),
    # null propagating out of a deferred fragment's object
    "defer-null-propagation": fixed('query Q { a ... @defer(label:"D") { onn { nx y } b } }',
                                    {"D": ""}, force={"onn": ("value", S), "onn/nx": ("null", G), "a": ("value", S)}),
    # a deferred fragment inside list items with a nested defer below a sub-object, beside a top-level defer
    "defer-list-nested": fixed('query Q { ... @defer(label:"T") { a } ol { ... @defer(label:"D") { o { ... @defer(label:"E") { y } } } } }',
                               {"T": "", "D": "", "E": "D"},
                               force={"a": ("value", G), "ol": ("value", S), "ol/0/o": ("value", G), "ol/1/o": ("value", G),
                                      "ol/0/o/y": ("value", S), "ol/1/o/y": ("value", S)},
                               lists={"ol": (2, False, None)}),
    # the source of a stream raises while an earlier item is still being completed
    "stream-fails-item-pending": fixed('query Q { ol @stream(initialCount:0, label:"S") { x } }', {"S": ""},
                                       force={"ol": ("value", S), "ol/0/x": ("value", G), "ol/1/x": ("value", S)}, lists={"ol": (2, True, 2)}),
    # a named fragment with a streamed list spread at two places; at one of them the streamed field is merged with another
    # (unlabelled, identical directive) selection that asks for more
    "stream-in-fragment-twice-merged": fixed('query Q { o { ...F } p { ...F ol @stream(initialCount: 1) { y zx: x } } } fragment F on O { ol @stream(initialCount: 1) { x } }',
                                             {}, force={"o": ("value", G), "p": ("value", G), "o/ol": ("value", S), "p/ol": ("value", S)},
                                             lists={"o/ol": (2, False, None), "p/ol": (2, False, None)}, p_gate=0.0),
    # two sibling deferred fragments on one object; the first holds a started stream next to something slow
    "sibling-defers-stream-in-first": fixed('query Q { a ... @defer(label:"A") { slow l @stream(initialCount:1, label:"S") } ... @defer(label:"B") { b } }',
                                            {"A": "", "B": "", "S": ""}, force={"a": ("value", S), "slow": ("value", G), "b": ("value", G), "l": ("value", S)},
                                            lists={"l": (3, True, None)}),
    "sibling-defers-stream-in-last": fixed('query Q { a ... @defer(label:"B") { b } ... @defer(label:"A") { slow l @stream(initialCount:1, label:"S") } }',
                                           {"A": "", "B": "", "S": ""}, force={"a": ("value", S), "slow": ("value", G), "b": ("value", G), "l": ("value", S)},
                                           lists={"l": (3, True, None)}),
    # a stream created inside a deferred fragment whose items hold a deferred fragment beside plain fields
    "defer-stream-defer": fixed('query Q { a ... @defer(label:"O") { ol @stream(initialCount:1, label:"S") { x ... @defer(label:"I") { y } } } }',
                                {"O": "", "S": "", "I": ""}, force={"a": ("value", S), "ol": ("value", S)}, lists={"ol": (3, False, None)}, p_gate=0.0),
    "defer-stream-defer-async": fixed('query Q { a ... @defer(label:"O") { ol @stream(initialCount:0, label:"S") { x ... @defer(label:"I") { y } } } }',
                                      {"O": "", "S": "", "I": ""}, force={"a": ("value", S), "ol": ("value", G)}, lists={"ol": (2, True, None)}),
    # one execution group shared by two nested fragments that sit under different enclosing fragments; one of the enclosing
    # fragments fails before the other completes
    "shared-task-under-two-parents-one-fails": fixed(
        'query Q { b ... @defer(label:"A") { nn ... @defer(label:"C") { a } } ... @defer(label:"B") { slow ... @defer(label:"D") { a } } }',
        {"A": "", "B": "", "C": "A", "D": "B"},
        force={"b": ("value", S), "nn": ("raise", G), "slow": ("value", G), "a": ("value", G)}),
    "shared-task-under-two-parents-ok": fixed(
        'query Q { b ... @defer(label:"A") { nn ... @defer(label:"C") { a } } ... @defer(label:"B") { slow ... @defer(label:"D") { a } } }',
        {"A": "", "B": "", "C": "A", "D": "B"},
        force={"b": ("value", S), "nn": ("value", G), "slow": ("value", G), "a": ("value", S)}),
    # orphaned work that registers more orphaned work: a synchronously failing non-null field beside a started awaitable, twice nested
    "nested-orphans-plain": fixed('query Q { o { x nx } nn }', {}, force={"o": ("value", G), "o/x": ("value", G), "o/nx": ("raise", S), "nn": ("raise", S)}),
    "nested-orphans-deferred": fixed('query Q { a ... @defer(label:"D") { o { x nx } nn } }', {"D": ""},
                                     force={"a": ("value", S), "o": ("value", G), "o/x": ("value", G), "o/nx": ("raise", S), "nn": ("raise", S)}),
    # the source raises while a LATER early-executed item is still pending and the head has settled
    "stream-fails-second-item-pending": fixed('query Q { ol @stream(initialCount:0, label:"S") { x } }', {"S": ""},
                                              force={"ol": ("value", S), "ol/0/x": ("value", S), "ol/1/x": ("value", G)}, lists={"ol": (2, True, 2)}),
    "stream-fails-middle-item-pending": fixed('query Q { ol @stream(initialCount:0, label:"S") { x } }', {"S": ""},
                                              force={"ol": ("value", S), "ol/0/x": ("value", S), "ol/1/x": ("value", G), "ol/2/x": ("value", S)}, lists={"ol": (3, True, 3)}),
    # two overlapping fragments on one object fail together through the field they share while their own fields are still in
    # flight (one of them beside a started stream): the queue ends by itself with work that nobody waits for any more
    "overlap-shared-fails-others-in-flight": fixed('query Q { o { ... @defer(label:"A") { x nx } ... @defer(label:"B") { nx y } } }', {"A": "", "B": ""},
                                                   force={"o": ("value", S), "o/x": ("value", G), "o/y": ("value", G), "o/nx": ("raise", G)}),
    "overlap-shared-fails-stream-in-flight": fixed('query Q { o { ... @defer(label:"A") { x l @stream(initialCount:1, label:"S") nx } ... @defer(label:"B") { nx y } } }',
                                                   {"A": "", "B": "", "S": ""},
                                                   force={"o": ("value", S), "o/x": ("value", G), "o/y": ("value", G), "o/nx": ("null", G), "o/l": ("value", S)},
                                                   lists={"o/l": (3, True, None)}),
    # a field shared by a fragment nested in a failing fragment and by an unrelated root fragment that succeeds
    "shared-nested-in-failing-and-root": fixed('query Q { b ... @defer(label:"A") { nn ... @defer(label:"C") { a } } ... @defer(label:"D") { a slow } }',
                                               {"A": "", "C": "A", "D": ""},
                                               force={"b": ("value", S), "nn": ("null", G), "a": ("value", G), "slow": ("value", G)}),
    "shared-nested-in-failing-and-root-object": fixed('query Q { b ... @defer(label:"A") { nn ... @defer(label:"C") { o { x } } } ... @defer(label:"D") { o { x ... @defer(label:"E") { y } } slow } }',
                                                      {"A": "", "C": "A", "D": "", "E": "D"},
                                                      force={"b": ("value", S), "nn": ("raise", G), "o": ("value", G), "slow": ("value", G), "o/x": ("value", S), "o/y": ("value", G)}),
    # a field shared by a fragment that fails and by a fragment nested in a sibling that succeeds
    "shared-field-failing-and-nested-sibling": fixed('query Q { o { y2: y ... @defer(label:"A") { x nx } ... @defer(label:"B") { slow: y ... @defer(label:"C") { x } } } }',
                                                     {"A": "", "B": "", "C": "B"},
                                                     force={"o": ("value", S), "o/y2": ("value", S), "o/x": ("value", G), "o/nx": ("raise", G), "o/slow": ("value", G)}),
    # a field shared by a shallow and a deeper fragment; the deeper fragment fails through another field
    "shared-field-deeper-fails": fixed('query Q { ... @defer(label:"A") { o { x slow: y } } o { y2: y ... @defer(label:"F") { x nx } } }',
                                       {"A": "", "F": ""},
                                       force={"o": ("value", S), "o/x": ("value", G), "o/slow": ("value", G), "o/y2": ("value", S), "o/nx": ("null", G)}),
}


def explore(req, early, depth, stops=False, with_signal=False, max_runs=200000):
    """Exhaustive re-execution: every sequence of enabled actions up to `depth`. Yields finished IncRun-like
    observation dicts for every maximal (or depth-limited) sequence."""
    out = []
    runs = 0

    def rec(prefix):
        nonlocal runs
        if runs >= max_runs:
            return
        run = increq.IncRun(req, early=early, with_signal=with_signal)
        for a in prefix:
            run.do(a)
        runs += 1
        acts = run.enabled(stops=stops)
        stopped = run.closed or run.aborted
        if not acts or len(prefix) >= depth or stopped or run.hang:
            if acts and not stopped and not run.hang and not stops:
                run.drain()      # past the depth bound: finish the run deterministically (first enabled action)
            if stopped:
                run.after_stop()
            stalled = (not stops and not run.ended and not run.closed and not run.aborted and not run.enabled() and not run.initial_is_plain
                       and run.res is not None)
            o = run.finish()
            out.append({"sched": [list(a) for a in prefix], "payloads": run.payloads, "ended": run.ended and not run.closed,
                        "plain": run.initial_is_plain, "obs": o, "stalled": stalled})
            return
        run.finish()
        for a in acts:
            rec(prefix + [a])
    rec([])
    return out, runs


def random_run(req, early, rng, stops=False, with_signal=False):
    run = increq.IncRun(req, early=early, with_signal=with_signal)
    sched = []
    for _ in range(400):
        acts = run.enabled()
        if not acts:
            break
        a = rng.choice(acts)
        # bias: sometimes hold pulls back so that events accumulate
        sched.append(list(a))
        run.do(a)
    stalled = not run.ended and not run.enabled() and not run.initial_is_plain and run.res is not None
    o = run.finish()
    return {"sched": sched, "payloads": run.payloads, "ended": run.ended, "plain": run.initial_is_plain, "obs": o, "stalled": stalled}


def to_record(req, r, refs):
    ref, refnp, refnf = refs
    refclean = req["noprop"] or not ref.errors
    rec = increq.trace_record(req, r["payloads"], r["ended"], refnp, refclean, refnf)
    rec["stalled"] = bool(r.get("stalled"))
    return rec


def references(req):
    return increq.reference(req, False), increq.reference(req, True), increq.reference(req, True, no_source_fail=True)


def _explore_job(job):
    name, req, early, depth = job
    refs = references(req)
    res, runs = explore(req, early, depth)
    recs = []
    for r in res:
        if r["plain"] or not r["payloads"]:
            continue
        rec = to_record(req, r, refs)
        rec["_meta"] = {"request": name, "query": req["query"], "early": early, "sched": r["sched"], "kind": "X"}
        recs.append(rec)
    return recs, runs


def _random_job(job):
    seed0, n, kw = job
    recs = []
    plain = 0
    for seed in range(seed0, seed0 + n):
        req = increq.gen_request(seed, **kw)
        try:
            refs = references(req)
        except Exception as e:  # noqa: BLE001
            recs.append({"_error": f"reference raised {type(e).__name__}: {e}", "_meta": {"query": req["query"], "seed": seed}})
            continue
        for early in (False, True):
            rng = random.Random(seed * 2 + early)
            r = random_run(req, early, rng)
            if r["plain"]:
                plain += 1
                continue
            rec = to_record(req, r, refs)
            rec["_meta"] = {"seed": seed, "query": req["query"], "early": early, "sched_len": len(r["sched"]), "kind": "V",
                            "hang": r["obs"]["hang"]}
            recs.append(rec)
    return recs, plain


def _explore_chunk(c):
    return [_explore_job(j) for j in c]


def _random_chunk(c):
    return [_random_job(j) for j in c]


def collect(tier, seed, pmap):
    """-> list of trace records (with _meta) from X over FIXED (+ a few generated small requests) and V."""
    depth = 7 if tier == "quick" else 10
    jobs = [(name, req, early, depth) for name, req in FIXED.items() for early in (False, True)]
    # a few small generated requests under X as well
    small = 6 if tier == "quick" else 30
    for k in range(small):
        req = increq.gen_request(seed * 1000 + k, max_defer=2, max_stream=1)
        jobs.append((f"gen{seed * 1000 + k}", req, bool(k % 2), depth - 2))
    recs, xruns = [], 0
    for lst in pmap(_explore_chunk, jobs, chunk=1):
        for r, n in lst:
            recs += r
            xruns += n
    nv = 1200 if tier == "quick" else 12000
    vjobs = [(seed * 100000 + k * 50, 50, {}) for k in range(nv // 50)]
    plain = 0
    for lst in pmap(_random_chunk, vjobs, chunk=1):
        for r, n in lst:
            recs += r
            plain += n
    return recs, {"x_re_executions": xruns, "v_plain_results": plain}
