"""C15 - input coercion and input validation agree on values, literals and variables.

P-spec: Coerce.tla - Conforms(S, value, type): what an accepted (coerced) input value must look like.
Types come from generated schemas (nesting of list / non-null over the built-in scalars, enums, input objects with
defaults, recursive and OneOf input objects); values are type-directed plausible values, systematically broken
variants and an edge palette (bool/int/float edge values, huge ints, NaN/inf, Undefined, wrong containers).
Verdict clauses:
  A1  coerce_input_value(v, t) is not Undefined  <=>  validate_input_value(v, t) reports no error
  A1' the same for coerce_input_literal / validate_input_literal under the same variable values
  A2  every accepted result satisfies Conforms (TLC, CoerceV.tla)
  A3  for accepted v: if value_to_literal(v, t) yields a literal, coercing it gives the same result
  A4  ValuesOfCorrectTypeRule accepts a constant argument literal  <=>  coerce_input_literal succeeds
  A5  get_variable_values returns either errors or a value for every provided or defaulted variable, conforming
  A6  none of these functions raises
  A7  a literal containing a variable (an input object field given as $x) coerces, with x provided, like the literal with
      x's value in its place, and, with x absent, like the literal without that field
  A8  inside a fragment that declares a variable $x without giving it a value, $x is absent even if the operation has an $x
"""
from __future__ import annotations

import math
import random

from . import common, gen_schema as gs
from .common import Evidence, Verdicts, run_tlc, pmap, seed

PROP = "C15"


def enc(v):
    from graphql.pyutils import Undefined
    if v is Undefined:
        return {"t": "undef"}
    if v is None:
        return {"t": "null"}
    if isinstance(v, bool):
        return {"t": "b", "v": v}
    if isinstance(v, int):
        return {"t": "i", "v": v} if -2 ** 31 <= v <= 2 ** 31 - 1 else {"t": "I"}
    if isinstance(v, float):
        return {"t": "f", "cls": "nan" if math.isnan(v) else "inf" if math.isinf(v) else "fin"}
    if isinstance(v, str):
        return {"t": "s", "v": v if v.isascii() and "\\" not in v and '"' not in v else "~nonascii~"}
    if isinstance(v, (list, tuple)):
        return {"t": "l", "v": [enc(x) for x in v]}
    if isinstance(v, dict):
        return {"t": "o", "kv": [[str(k), enc(x)] for k, x in v.items()]}
    return {"t": "other"}


def good_value(g, S, t, rnd, depth=0):
    """a plausible runtime value for type t (not always valid)"""
    if t[0] == "NN":
        return good_value(g, S, t[1], rnd, depth)
    if rnd.random() < 0.1:
        return None
    if t[0] == "L":
        if rnd.random() < 0.15:
            return good_value(g, S, t[1], rnd, depth + 1)       # list-of-one coercion
        return [good_value(g, S, t[1], rnd, depth + 1) for _ in range(rnd.choice([0, 1, 2]))]
    n = t[1]
    if n == "Int":
        # integral floats are Int values too (5.0 is 5); the random stream is not disturbed: one choice from one list
        return rnd.choice([0, 1, -5, 2 ** 31 - 1, -2 ** 31, 5.0, -0.0, 1e9, 2147483647.0, -2147483648.0])
    if n == "Float":
        return rnd.choice([1.5, 0.0, -2.25, 3, 1e100])
    if n == "String":
        return rnd.choice(["", "text", "é", "1", "1\n", "line\nbreak", "quote\"", "back\\slash"])
    if n == "Boolean":
        return rnd.random() < 0.5
    if n == "ID":
        return rnd.choice(["id1", 7, "7", "1\n", "-3\n", "007", " 5", "-0", "12\r", "\u0663", 2 ** 40, "9" * 25])
    d = next(x for x in S["types"] if x["name"] == n)
    if d["kind"] == "ENUM":
        return rnd.choice(d["values"])["name"]
    if d["kind"] == "SCALAR":
        return rnd.choice([1, "x", {"a": 1}])
    if depth > 3:
        return None
    if d["oneOf"]:
        f = rnd.choice(d["inputFields"])
        v = good_value(g, S, ["NN", f["type"]], rnd, depth + 1)
        return {f["name"]: v if v is not None else 1}
    out = {}
    for f in d["inputFields"]:
        required = f["type"][0] == "NN" and not f["hasDefault"]
        if required or rnd.random() < 0.5:
            out[f["name"]] = good_value(g, S, f["type"], rnd, depth + 1)
    return out


def break_value(v, rnd):
    """one random edit of a value"""
    from graphql.pyutils import Undefined
    edge = [True, 0, 2 ** 31, -2 ** 31 - 1, 10 ** 400, 1.5, float("nan"), float("inf"), "", "NOPE", [], {}, (1, 2), {1}, b"x", object(), Undefined, None, [None], {"zzz": 1}]
    r = rnd.random()
    if isinstance(v, (dict, list)) and r < 0.2:
        return recontain(v, rnd)
    if isinstance(v, dict) and v and r < 0.5:
        k = rnd.choice(list(v))
        w = dict(v)
        if rnd.random() < 0.3:
            del w[k]
        elif rnd.random() < 0.5:
            w["unknownField"] = 1
        else:
            w[k] = break_value(v[k], rnd)
        return w
    if isinstance(v, list) and v and r < 0.5:
        w = list(v)
        i = rnd.randrange(len(w))
        w[i] = break_value(w[i], rnd)
        return w
    return rnd.choice(edge)


def recontain(v, rnd):
    """the same content in another container class: the two functions must keep agreeing on which containers they take"""
    import collections
    import types
    if isinstance(v, dict):
        w = {k: (recontain(x, rnd) if isinstance(x, (dict, list)) and rnd.random() < 0.3 else x) for k, x in v.items()}
        return rnd.choice([lambda: types.MappingProxyType(w), lambda: collections.ChainMap(w), lambda: collections.UserDict(w),
                           lambda: collections.OrderedDict(w), lambda: collections.defaultdict(int, w)])()
    w = [(recontain(x, rnd) if isinstance(x, (dict, list)) and rnd.random() < 0.3 else x) for x in v]
    return rnd.choice([lambda: tuple(w), lambda: collections.deque(w), lambda: collections.UserList(w), lambda: iter(w) if False else w,
                       lambda: (x for x in w) if False else tuple(w), lambda: frozenset(w) if all(isinstance(x, (int, str)) for x in w) else tuple(w)])()


class VarRef:
    """stands for a variable reference inside a literal"""

    def __init__(self, name):
        self.name = name


def to_literal_text(v, t, S, rnd):
    """a GraphQL literal spelling of a runtime value, type-directed for enums; None when not spellable"""
    from graphql.pyutils import Undefined
    if isinstance(v, VarRef):
        return "$" + v.name
    if v is Undefined:
        return None
    if v is None:
        return "null"
    if isinstance(v, bool):
        return "true" if v else "false"
    if isinstance(v, int):
        return str(v)
    if isinstance(v, float):
        if not math.isfinite(v):
            return None
        return repr(v)
    if isinstance(v, str):
        inner = t
        while inner[0] != "N":
            inner = inner[1]
        d = next((x for x in S["types"] if x["name"] == inner[1]), None)
        if d is not None and d["kind"] == "ENUM" and v.isidentifier():
            return v                       # enum literal
        return gs.q(v)
    if isinstance(v, (list, tuple)):
        it = t[1] if t[0] == "L" else (t[1][1] if t[0] == "NN" and t[1][0] == "L" else t)
        parts = [to_literal_text(x, it, S, rnd) for x in v]
        return None if any(p is None for p in parts) else "[" + ", ".join(parts) + "]"
    if isinstance(v, dict):
        inner = t
        while inner[0] != "N":
            inner = inner[1]
        d = next((x for x in S["types"] if x["name"] == inner[1]), None)
        parts = []
        for k, x in v.items():
            if not str(k).isidentifier():
                return None
            ft = next((f["type"] for f in d["inputFields"] if f["name"] == k), ["N", "Int"]) if d and d["kind"] == "INPUT_OBJECT" else ["N", "Int"]
            p = to_literal_text(x, ft, S, rnd)
            if p is None:
                return None
            parts.append(f"{k}: {p}")
        return "{" + ", ".join(parts) + "}"
    return None


def _chunk(seeds):
    from graphql import build_schema, parse, validate, GraphQLError
    from graphql.language import parse_const_value, parse_value
    from graphql.pyutils import Undefined
    from graphql.utilities import coerce_input_value, coerce_input_literal, value_to_literal
    from graphql.language import parse_const_value, print_ast
    from graphql.utilities.validate_input_value import validate_input_value, validate_input_literal
    from graphql.utilities import type_from_ast
    from graphql.language import parse_type
    from graphql.validation import ValuesOfCorrectTypeRule
    from graphql.execution.values import get_variable_values, get_fragment_variable_values
    from graphql.execution.get_variable_signature import get_variable_signature
    out = []
    for sd in seeds:
        rnd = random.Random(sd)
        S = gs.gen_schema(sd, adversarial_text=False)
        g = gs.Gen(sd)
        # custom scalars (which accept any value) are outside the statement: neither they nor input objects using them are tested
        custom = {t["name"] for t in S["types"] if t["kind"] == "SCALAR"}
        changed = True
        while changed:
            changed = False
            for t in S["types"]:
                if t["kind"] == "INPUT_OBJECT" and t["name"] not in custom and any(gs.named(f["type"]) in custom for f in t["inputFields"]):
                    custom.add(t["name"])
                    changed = True
        input_names = gs.BUILTIN + [t["name"] for t in S["types"] if t["kind"] in ("ENUM", "INPUT_OBJECT") and t["name"] not in custom]
        # a host field taking one argument of every tested type, to exercise the validation rule and variables
        tests = []
        for k in range(10):
            t = g.wrap(gs.N(rnd.choice(input_names)), p_list=0.35, p_nn=0.35)
            tests.append(t)
        sdl = gs.to_sdl(S) + "\nextend type " + S["query"] + " {\n" + "\n".join(f"  host{k}(a: {gs.tstr(t)}): Int" for k, t in enumerate(tests)) + "\n}\n"
        try:
            schema = build_schema(sdl)
        except Exception as e:  # noqa: BLE001
            out.append({"skipped": f"{type(e).__name__}"})
            continue
        Sw = gs.to_wire(gs.normalise(S))
        for k, t in enumerate(tests):
            gtype = type_from_ast(schema, parse_type(gs.tstr(t)))
            values = []
            for _ in range(6):
                v = good_value(g, S, t, rnd)
                values.append(v)
                values.append(break_value(v, rnd))
            for v in values:
                viol = []
                rec = None
                meta = {"seed": sd, "type": gs.tstr(t), "value": repr(v)[:120]}
                # ---- A1 / A2 / A6 on runtime values
                try:
                    coerced = coerce_input_value(v, gtype)
                    errs = []
                    validate_input_value(v, gtype, lambda e, p: errs.append(e.message))
                    ok = coerced is not Undefined
                    if ok != (not errs):
                        viol.append(("A1-coerce-and-validate-disagree", {"coerced": repr(coerced)[:80], "errors": errs[:2]}))
                    if ok:
                        rec = {"schema": Sw, "type": t, "result": enc(coerced), "_meta": {**meta, "route": "value"}}
                        # ---- A3
                        try:
                            lit = value_to_literal(v, gtype)
                            if lit is None:
                                # every accepted value of a type made of built-in scalars, enums and input objects can be written down
                                viol.append(("A3-accepted-value-has-no-literal", {"value": repr(v)[:80], "coerced": repr(coerced)[:80]}))
                            if lit is not None:
                                back = coerce_input_literal(lit, gtype)
                                if not same(back, coerced):
                                    viol.append(("A3-literal-of-value-coerces-differently", {"value": repr(coerced)[:80], "via_literal": repr(back)[:80]}))
                                # the literal is something that can be written down: printed and parsed it still denotes the value
                                back2 = coerce_input_literal(parse_const_value(print_ast(lit)), gtype)
                                if not same(back2, coerced):
                                    viol.append(("A3-printed-literal-of-value-coerces-differently", {"value": repr(coerced)[:80], "printed": print_ast(lit)[:80], "via_literal": repr(back2)[:80]}))
                        except Exception as e:  # noqa: BLE001
                            viol.append(("A6-value_to_literal-raises", f"{type(e).__name__}: {str(e)[:100]}"))
                except Exception as e:  # noqa: BLE001
                    viol.append(("A6-coerce-or-validate-raises", f"{type(e).__name__}: {str(e)[:100]}"))
                out.append({"rec": rec, "viol": viol, "meta": meta})
                # ---- literals: A1', A4, A2
                text = to_literal_text(v, t, S, rnd)
                if text is None:
                    continue
                viol2 = []
                rec2 = None
                meta2 = {"seed": sd, "type": gs.tstr(t), "literal": text[:150]}
                try:
                    node = parse_const_value(text)
                    c2 = coerce_input_literal(node, gtype)
                    errs2 = []
                    validate_input_literal(node, gtype, lambda e, p: errs2.append(e.message))
                    ok2 = c2 is not Undefined
                    if ok2 != (not errs2):
                        viol2.append(("A1-literal-coerce-and-validate-disagree", {"coerced": repr(c2)[:80], "errors": errs2[:2]}))
                    if ok2:
                        rec2 = {"schema": Sw, "type": t, "result": enc(c2), "_meta": {**meta2, "route": "literal"}}
                    doc = parse("{ host%d(a: %s) }" % (k, text))
                    rule_errs = validate(schema, doc, [ValuesOfCorrectTypeRule])
                    if ok2 != (not rule_errs):
                        viol2.append(("A4-rule-and-literal-coercion-disagree", {"coerces": ok2, "rule_errors": [e.message for e in rule_errs][:2]}))
                    # ---- A7: literals that contain variables (an input object field given as a variable), under variable values:
                    #      a provided variable is its value; a variable without a runtime value makes the field count as
                    #      omitted (its default applies, or the object is invalid if the field is required)
                    inner = t
                    while inner[0] != "N":
                        inner = inner[1]
                    d = next((x for x in S["types"] if x["name"] == inner[1]), None)
                    # A1'' (every input object type, OneOf included): under the same variable values - x provided, x absent -
                    # coercion of the literal with $x yields a result exactly when validation of it reports no error
                    if isinstance(v, dict) and v and d is not None and d["kind"] == "INPUT_OBJECT" and t[0] != "L" and not (t[0] == "NN" and t[1][0] == "L"):
                        fk0 = rnd.choice(sorted(v))
                        fdef0 = next((f for f in d["inputFields"] if f["name"] == fk0), None)
                        lit0 = to_literal_text({**v, fk0: VarRef("x")}, t, S, rnd)
                        if fdef0 is not None and lit0 is not None and _jsonlike(v[fk0]):
                            vt0 = fdef0["type"][1] if fdef0["type"][0] == "NN" else fdef0["type"]
                            vdefs0 = parse("query ($x: %s) { __typename }" % gs.tstr(vt0)).definitions[0].variable_definitions
                            node0 = parse_value(lit0)
                            for label, inputs in (("provided", {"x": v[fk0]}), ("absent", {})):
                                vv = get_variable_values(schema, vdefs0, inputs)
                                if isinstance(vv, list):
                                    continue
                                c0 = coerce_input_literal(node0, gtype, vv)
                                e0 = []
                                validate_input_literal(node0, gtype, lambda e, p: e0.append(e.message), vv)
                                if (c0 is not Undefined) != (not e0):
                                    viol2.append(("A1-literal-with-variable-coerce-and-validate-disagree",
                                                  {"literal": lit0[:100], "x": label, "coerced": repr(c0)[:80], "errors": e0[:2]}))
                    if ok2 and isinstance(v, dict) and v and d is not None and d["kind"] == "INPUT_OBJECT" and not d["oneOf"] and t[0] != "L" \
                            and not (t[0] == "NN" and t[1][0] == "L"):
                        fk = rnd.choice(sorted(v))
                        fdef = next((f for f in d["inputFields"] if f["name"] == fk), None)
                        if fdef is not None and _jsonlike(v[fk]):
                            vt = fdef["type"][1] if fdef["type"][0] == "NN" else fdef["type"]       # the nullable variant of the field's type
                            with_var = to_literal_text({**v, fk: VarRef("x")}, t, S, rnd)
                            without = to_literal_text({kk: xx for kk, xx in v.items() if kk != fk}, t, S, rnd)
                            vdefs = parse("query ($x: %s) { __typename }" % gs.tstr(vt)).definitions[0].variable_definitions
                            if with_var is not None and without is not None:
                                vnode = parse_value(with_var)
                                given = get_variable_values(schema, vdefs, {"x": v[fk]})
                                if not isinstance(given, list) and v[fk] is not None:
                                    c_given = coerce_input_literal(vnode, gtype, given)
                                    if not same(c_given, c2):
                                        viol2.append(("A7-variable-in-literal-differs-from-its-value", {"literal": with_var[:100], "x": repr(v[fk])[:60],
                                                                                                        "with_variable": repr(c_given)[:80], "constant": repr(c2)[:80]}))
                                # A8: a fragment variable of the same name that is declared but has no value (no argument in the
                                # spread, no default) shadows the operation's variable: inside the fragment $x is absent
                                if not isinstance(given, list) and v[fk] is not None:
                                    fdoc = parse("query ($x: %s) { ...FV }  fragment FV($x: %s) on %s { __typename }" % (gs.tstr(vt), gs.tstr(vt), S["query"]),
                                                 experimental_fragment_arguments=True)
                                    fdef = fdoc.definitions[1]
                                    sigs = {vd_.variable.name.value: get_variable_signature(schema, vd_) for vd_ in fdef.variable_definitions}
                                    spread = fdoc.definitions[0].selection_set.selections[0]
                                    fvals = get_fragment_variable_values(spread, sigs, given)
                                    c_shadow = coerce_input_literal(vnode, gtype, given, fvals)
                                    c_without0 = coerce_input_literal(parse_const_value(without), gtype)
                                    if not same(c_shadow, c_without0):
                                        viol2.append(("A8-shadowing-fragment-variable-without-value-is-not-absent", {"literal": with_var[:100], "field": fk,
                                                      "with_shadowing_fragment_variable": repr(c_shadow)[:80], "field_omitted": repr(c_without0)[:80]}))
                                missing = get_variable_values(schema, vdefs, {})
                                if not isinstance(missing, list):
                                    c_missing = coerce_input_literal(vnode, gtype, missing)
                                    c_without = coerce_input_literal(parse_const_value(without), gtype)
                                    if not same(c_missing, c_without):
                                        viol2.append(("A7-missing-variable-in-field-differs-from-omitted-field", {"literal": with_var[:100], "field": fk,
                                                      "with_missing_variable": repr(c_missing)[:80], "field_omitted": repr(c_without)[:80]}))
                    # ---- variables: A5 (the same value passed through a variable of that type)
                    vdoc = parse("query ($v: %s) { host%d(a: $v) }" % (gs.tstr(t), k))
                    if _jsonlike(v):
                        res = get_variable_values(schema, vdoc.definitions[0].variable_definitions, {"v": v})
                        if isinstance(res, list):
                            if not res:
                                viol2.append(("A5-neither-errors-nor-values", None))
                        else:
                            cv = res.coerced if hasattr(res, "coerced") else res
                            if "v" not in cv:
                                viol2.append(("A5-provided-variable-has-no-value", None))
                            else:
                                out.append({"rec": {"schema": Sw, "type": t, "result": enc(cv["v"]), "_meta": {**meta, "route": "variable"}}, "viol": [], "meta": meta})
                                # a provided variable coerces iff the runtime value coerces
                                if coerce_input_value(v, gtype) is Undefined:
                                    viol2.append(("A5-variable-accepted-but-value-coercion-rejects", None))
                        if isinstance(res, list) and coerce_input_value(v, gtype) is not Undefined:
                            viol2.append(("A5-variable-rejected-but-value-coercion-accepts", [e.message for e in res][:2]))
                except GraphQLError as e:
                    if "Syntax Error" not in e.message:
                        viol2.append(("A6-literal-path-raises", f"GraphQLError: {e.message[:100]}"))
                except Exception as e:  # noqa: BLE001
                    viol2.append(("A6-literal-path-raises", f"{type(e).__name__}: {str(e)[:100]}"))
                out.append({"rec": rec2, "viol": viol2, "meta": meta2})
    return out


def _jsonlike(v):
    if v is None or isinstance(v, (bool, int, str)):
        return True
    if isinstance(v, float):
        return math.isfinite(v)
    if isinstance(v, list):
        return all(_jsonlike(x) for x in v)
    if isinstance(v, dict):
        return all(isinstance(k, str) and _jsonlike(x) for k, x in v.items())
    return False


def same(a, b):
    if isinstance(a, float) and isinstance(b, float) and math.isnan(a) and math.isnan(b):
        return True
    if isinstance(a, (list, tuple)) and isinstance(b, (list, tuple)):
        return len(a) == len(b) and all(same(x, y) for x, y in zip(a, b))
    if isinstance(a, dict) and isinstance(b, dict):
        return a.keys() == b.keys() and all(same(a[k], b[k]) for k in a)
    return type(a) is type(b) and a == b or (isinstance(a, (int, float)) and isinstance(b, (int, float)) and not isinstance(a, bool) and not isinstance(b, bool) and a == b)


def run(tier: str, rd):
    ev = Evidence(PROP, tier)
    vd = Verdicts(PROP)
    n = 60 if tier == "quick" else 600
    base = seed() * 1000000 + 1500000
    res = []
    for lst in pmap(_chunk, list(range(base, base + n)), chunk=3):
        res += lst
    skipped = [r for r in res if "skipped" in r]
    res = [r for r in res if "viol" in r]
    for r in res:
        for clause, detail in r["viol"]:
            vd.violation(clause, r["meta"], detail, {"clause": clause})
    recs = [r["rec"] for r in res if r["rec"] is not None]
    hits = {}
    for bi in range(0, len(recs), 1500):
        batch = recs[bi:bi + 1500]
        payload = [{k: v for k, v in r.items() if not k.startswith("_")} for r in batch]
        p = common.write_cases(rd, f"coerce{bi}.json", payload)
        r = run_tlc(rd, "CoerceV", common.v_cfg(), name=f"CoerceV{bi}", env={"CASES": str(p)}, timeout=3400, heap="20g")
        ev.add_tlc(f"V: {len(batch)} accepted coercion results vs Conforms (Coerce.tla)", r)
        for o in r.json_lines():
            rec = batch[o["viol"] - 1]
            hits[o["clause"]] = hits.get(o["clause"], 0) + 1
            vd.violation("A2-" + o["clause"], rec["_meta"], {"result": rec["result"]})
    ev.traces += len(recs)
    for r in res:
        ev.case(None, nontrivial=True, key=str(sorted(r["meta"].items())))
    if recs:
        ev.sample(recs[0]["_meta"])
    ev.extra.update({"comparisons": len(res), "accepted_results_checked_by_tlc": len(recs), "skipped_schemas": len(skipped), "clause_hits": hits,
                     "routes": {k: sum(1 for r in recs if r["_meta"].get("route") == k) for k in ("value", "literal", "variable")}})
    ev.rule = "generated input types (10 per schema) x type-directed values, broken variants and an edge palette, as runtime value, literal and variable"
    ev.assumptions = ["exact equality with a specified CoerceValue is not compared (which Python numbers count as Int is the library's latitude); Conforms is"]
    rc = vd.finish()
    ev.write(vd)
    return rc


if __name__ == "__main__":
    common.main_wrapper(PROP, run)
