"""Abstract schemas (the schema part of the gqlmini domain, DESIGN 3.4) for C17-C20: a seeded generator of valid
schemas, two independent renderers (SDL text written by this module; programmatic GraphQL* constructors) and the
projection of a real GraphQLSchema back to the abstract form by a structural walk over public attributes.

abstract schema:
  {"description": str|None, "query": name|None, "mutation": name|None, "subscription": name|None,
   "types": [type...], "directives": [directive...]}
  type: {"kind": SCALAR|OBJECT|INTERFACE|UNION|ENUM|INPUT_OBJECT, "name", "description", "specifiedBy": url|None,
         "fields": [{"name","type","description","deprecation","args":[inputvalue...]}], "interfaces": [names],
         "members": [names], "values": [{"name","description","deprecation"}], "inputFields": [inputvalue...], "oneOf": bool}
  inputvalue: {"name","type","description","deprecation","hasDefault","default": value}
  typeRef: ["N",name] | ["L",t] | ["NN",t]
  value: {"t":"null"} | {"t":"i","v"} | {"t":"f","v":str} | {"t":"s","v":[code points]} | {"t":"b","v"} | {"t":"e","v":name}
         | {"t":"l","v":[...]} | {"t":"o","kv":[[name,value],...]}
"""
from __future__ import annotations

import re

import random

BUILTIN = ["Int", "Float", "String", "Boolean", "ID"]
TEXTS = ["plain", "with \"quotes\"", "back\\slash", "triple \"\"\" quotes", " leading blank", "trailing blank ", "line one\nline two", "\n leading newline",
         "trailing newline\n", "indented\n  second", "\tTab", "uni code \u0085 sep \x0c ff", "ends with quote\"", "ends with backslash\\", "é ü 😀",
         "a" * 75, "# not a comment", "multi\n\n\nblank lines", "  ", "x",
         # white space that is not GraphQL's (space, tab): no part of any indentation
         "\u00a0nbsp first\n\u00a0nbsp second", "\u3000wide\n\u3000  wide too", "\u00a0", "text\n\u2003", "\u2028", "\x1f unit sep\n\x1f again", "\x0b\x0c", "\u00a0" + "b" * 80,
         "\x85 nel\n\x85 nel", "ends with nbsp\u00a0\n\u00a0",
         # a single GraphQL line that Python's str.splitlines() would split: leading / trailing blanks must survive
         " first\u2028second", "\tfirst\u2029second", " a\x85b", "  a\x1cb", " a\x1db\x1e", "a\u2028 ", " \u2028 x"]
LOCS_EXEC = ["QUERY", "MUTATION", "SUBSCRIPTION", "FIELD", "FRAGMENT_DEFINITION", "FRAGMENT_SPREAD", "INLINE_FRAGMENT", "VARIABLE_DEFINITION",
             "FRAGMENT_VARIABLE_DEFINITION"]
LOCS_TS = ["SCHEMA", "SCALAR", "OBJECT", "FIELD_DEFINITION", "ARGUMENT_DEFINITION", "INTERFACE", "UNION", "ENUM", "ENUM_VALUE", "INPUT_OBJECT",
           "INPUT_FIELD_DEFINITION"]


def N(n):
    return ["N", n]


def named(t):
    while t[0] != "N":
        t = t[1]
    return t[1]


def tstr(t):
    return t[1] if t[0] == "N" else ("[" + tstr(t[1]) + "]" if t[0] == "L" else tstr(t[1]) + "!")


class Gen:
    def __init__(self, seed, size=None, adversarial_text=True):
        self.rnd = random.Random(seed)
        self.size = size or self.rnd.choice([1, 2, 3])
        self.adv = adversarial_text
        self.types = []
        self.by_name = {}
        self.counter = 0

    def name(self, prefix):
        self.counter += 1
        return f"{prefix}{self.counter}"

    def text(self, p=0.4):
        if self.rnd.random() >= p:
            return None
        return self.rnd.choice(TEXTS) if self.adv else self.rnd.choice(["plain", "two words"])

    def reason(self, p=0.2, allowed=True):
        if not allowed or self.rnd.random() >= p:
            return None
        if self.rnd.random() < 0.25:
            return ""                                    # deprecated with an empty reason
        return self.rnd.choice(["No longer supported", "use other"] + (TEXTS[:8] if self.adv else []))

    def wrap(self, t, p_list=0.25, p_nn=0.3, depth=0):
        r = self.rnd.random()
        if r < p_list and depth < 2:
            t = ["L", self.wrap(t, p_list, p_nn, depth + 1)]
        if self.rnd.random() < p_nn:
            t = ["NN", t]
        return t

    def add(self, t):
        self.types.append(t)
        self.by_name[t["name"]] = t
        return t

    def blank(self, kind, name):
        return {"kind": kind, "name": name, "description": self.text(0.3), "specifiedBy": None, "fields": [], "interfaces": [], "members": [],
                "values": [], "inputFields": [], "oneOf": False}

    # ---- values
    def default_for(self, t, depth=0):
        rnd = self.rnd
        if t[0] == "NN":
            for _ in range(30):
                v = self.default_for(t[1], depth)
                if v["t"] != "null":
                    return v
            return {"t": "l", "v": []} if t[1][0] == "L" else {"t": "i", "v": 1}
        if rnd.random() < 0.15:
            return {"t": "null"}
        if t[0] == "L":
            return {"t": "l", "v": [self.default_for(t[1], depth + 1) for _ in range(rnd.choice([0, 1, 2]))]}
        n = t[1]
        if n == "Int":
            return {"t": "i", "v": rnd.choice([0, 1, -7, 2147483647])}
        if n == "Float":
            return {"t": "f", "v": rnd.choice(["1.5", "-0.25", "2.0", "100000.0"])}
        if n == "ID" and rnd.random() < 0.4:
            # IDs that look like numbers, or almost do: an ID value is a string whatever it looks like
            return {"t": "s", "v": [ord(c) for c in rnd.choice(["12", "12", "1\n", "-3\n", "007", "007", " 5", "0x1f", "1e3", "\u0663", "-0", "12\r", "9" * 25])]}
        if n == "String" and rnd.random() < 0.45:
            # strings that coincide with what other types spell differently (an ID "12" prints as 12, an enum value as a name)
            enum_names = [v["name"] for t_ in self.types if t_["kind"] == "ENUM" for v in t_["values"]]
            return {"t": "s", "v": [ord(c) for c in rnd.choice(["12", "12", "007", "-0"] + enum_names[:6])]}
        if n == "String" or n == "ID":
            return {"t": "s", "v": [ord(c) for c in (rnd.choice(TEXTS[:14]) if self.adv else "txt")]}
        if n == "Boolean":
            return {"t": "b", "v": rnd.random() < 0.5}
        d = self.by_name[n]
        if d["kind"] == "ENUM":
            return {"t": "e", "v": rnd.choice(d["values"])["name"]}
        if d["kind"] == "SCALAR":
            return {"t": "s", "v": [ord(c) for c in "custom"]}
        # input object
        if depth > 2:
            return {"t": "null"} if t[0] != "NN" else self.minimal_obj(d, depth)
        return self.minimal_obj(d, depth, extra=True)

    def minimal_obj(self, d, depth, extra=False):
        rnd = self.rnd
        kv = []
        if d["oneOf"]:
            f = rnd.choice(d["inputFields"])
            v = self.default_for(["NN", f["type"]], depth + 1)
            if v["t"] == "null":
                v = self.nonnull_leaf(f["type"])
            return {"t": "o", "kv": [[f["name"], v]]}
        for f in d["inputFields"]:
            required = f["type"][0] == "NN" and not f["hasDefault"]
            if required or (extra and rnd.random() < 0.4 and depth < 2):
                v = self.default_for(f["type"], depth + 1)
                if v["t"] == "null" and f["type"][0] == "NN":
                    v = self.nonnull_leaf(f["type"])
                kv.append([f["name"], v])
        return {"t": "o", "kv": kv}

    def nonnull_leaf(self, t):
        for _ in range(20):
            v = self.default_for(t)
            if v["t"] != "null":
                return v
        return {"t": "l", "v": []} if (t[0] == "L" or (t[0] == "NN" and t[1][0] == "L")) else {"t": "i", "v": 1}

    def input_value(self, name, input_types, allow_required=True):
        rnd = self.rnd
        base = rnd.choice(input_types)
        t = self.wrap(N(base))
        if not allow_required and t[0] == "NN":
            t = t[1]
        has_default = rnd.random() < 0.35
        iv = {"name": name, "type": t, "description": self.text(0.25), "deprecation": None, "hasDefault": False, "default": {"t": "null"}}
        if has_default:
            d = self.default_for(t)
            if not (d["t"] == "null" and t[0] == "NN"):
                iv["hasDefault"], iv["default"] = True, d
        required = t[0] == "NN" and not iv["hasDefault"]
        iv["deprecation"] = self.reason(0.15, allowed=not required)
        return iv

    def args(self, input_types, p=0.35):
        if self.rnd.random() >= p:
            return []
        return [self.input_value(f"a{k}", input_types) for k in range(self.rnd.choice([1, 1, 2]))]

    # ---- the schema
    def build(self):
        rnd = self.rnd
        sz = self.size
        scalars = [self.add({**self.blank("SCALAR", self.name("Sc")), "specifiedBy": rnd.choice([None, "https://example.com/spec", "https://e.org/a?b=c&d"])})
                   for _ in range(rnd.randrange(0, 2))]
        enums = []
        for _ in range(rnd.randrange(1, 1 + sz)):
            e = self.blank("ENUM", self.name("En"))
            e["values"] = [{"name": f"V{k}", "description": self.text(0.2), "deprecation": self.reason(0.2)} for k in range(rnd.randrange(1, 4))]
            enums.append(self.add(e))
        leaf_in = BUILTIN + [s["name"] for s in scalars] + [e["name"] for e in enums]
        inputs = []
        for _ in range(rnd.randrange(0, 1 + sz)):
            io = self.blank("INPUT_OBJECT", self.name("In"))
            self.add(io)
            io["oneOf"] = rnd.random() < 0.2
            pool = leaf_in + [x["name"] for x in inputs] + ([io["name"]] if not io["oneOf"] else [])
            for k in range(rnd.randrange(1, 4)):
                base = rnd.choice(pool)
                if io["oneOf"]:
                    t = self.wrap(N(base), p_nn=0.0)
                    if t[0] == "NN":
                        t = t[1]
                    f = {"name": f"f{k}", "type": t, "description": self.text(0.2), "deprecation": self.reason(0.1), "hasDefault": False, "default": {"t": "null"}}
                else:
                    if base == io["name"]:     # recursion only through a nullable or list position, no default
                        t = rnd.choice([N(base), ["L", N(base)], ["L", ["NN", N(base)]]])
                        f = {"name": f"f{k}", "type": t, "description": self.text(0.2), "deprecation": self.reason(0.1), "hasDefault": False, "default": {"t": "null"}}
                    else:
                        io["inputFields"] and None
                        f = None
                        # defaults referring to this very type are avoided (by_name entry is still being filled)
                        f = self.input_value(f"f{k}", [b for b in pool if b != io["name"]])
                io["inputFields"].append(f)
            inputs.append(io)
        input_types = leaf_in + [x["name"] for x in inputs]
        leaf_out = BUILTIN + [s["name"] for s in scalars] + [e["name"] for e in enums]
        interfaces = []
        for _ in range(rnd.randrange(0, 1 + sz)):
            it = self.blank("INTERFACE", self.name("If"))
            parents = [p for p in interfaces if rnd.random() < 0.4]
            closure = []
            for p in parents:
                for q in [p["name"]] + p["interfaces"]:
                    if q not in closure:
                        closure.append(q)
            it["interfaces"] = closure
            for q in closure:
                for f in self.by_name[q]["fields"]:
                    if f["name"] not in [x["name"] for x in it["fields"]]:
                        it["fields"].append(dict(f, args=[dict(a) for a in f["args"]]))
            for k in range(rnd.randrange(1, 3)):
                base = rnd.choice(leaf_out + [x["name"] for x in interfaces])
                it["fields"].append({"name": f"{it['name'].lower()}f{k}", "type": self.wrap(N(base)), "description": self.text(0.2),
                                     "deprecation": self.reason(0.15), "args": self.args(input_types)})
            self.add(it)
            interfaces.append(it)
        objects = []
        n_obj = rnd.randrange(1, 2 + sz)
        for _ in range(n_obj):
            ob = self.blank("OBJECT", self.name("Ob"))
            chosen = [p for p in interfaces if rnd.random() < 0.4]
            closure = []
            for p in chosen:
                for q in [p["name"]] + p["interfaces"]:
                    if q not in closure:
                        closure.append(q)
            ob["interfaces"] = closure
            for q in closure:
                for f in self.by_name[q]["fields"]:
                    if f["name"] not in [x["name"] for x in ob["fields"]]:
                        g = dict(f, args=[dict(a) for a in f["args"]])
                        if g["type"][0] != "NN" and rnd.random() < 0.3:
                            g["type"] = ["NN", g["type"]]        # covariant: non-null of the interface's type
                        g["deprecation"] = g["deprecation"] if rnd.random() < 0.5 else None
                        ob["fields"].append(g)
            for k in range(rnd.randrange(1, 4)):
                base = rnd.choice(leaf_out + [x["name"] for x in interfaces] + [x["name"] for x in objects] + [ob["name"]])
                ob["fields"].append({"name": f"{ob['name'].lower()}f{k}", "type": self.wrap(N(base)), "description": self.text(0.2),
                                     "deprecation": self.reason(0.15), "args": self.args(input_types)})
            self.add(ob)
            objects.append(ob)
        for _ in range(rnd.randrange(0, 1 + sz // 2)):
            u = self.blank("UNION", self.name("Un"))
            u["members"] = [o["name"] for o in rnd.sample(objects, rnd.randrange(1, len(objects) + 1))]
            self.add(u)
            # let some object field refer to the union
            host = rnd.choice(objects)
            host["fields"].append({"name": f"u{len(host['fields'])}", "type": self.wrap(N(u["name"])), "description": None, "deprecation": None, "args": []})
        # root types
        query = objects[0]
        roots = {"query": query["name"], "mutation": None, "subscription": None}
        if len(objects) > 1 and rnd.random() < 0.4:
            roots["mutation"] = objects[1]["name"]
        if len(objects) > 2 and rnd.random() < 0.3:
            roots["subscription"] = objects[2]["name"]
        r_names = rnd.random()
        if r_names < 0.15:
            # the conventional names, but on the wrong operations (the schema block is then indispensable)
            present = [k for k in ("query", "mutation", "subscription") if roots[k]]
            names = ["Query", "Mutation", "Subscription"]
            perm = names[:]
            while perm == names:
                rnd.shuffle(perm)
            ren = {roots[k]: perm[names.index(n)] for k, n in zip(("query", "mutation", "subscription"), names) if roots[k]}
            self.rename(ren)
            roots = {k: (ren.get(v, v) if v else None) for k, v in roots.items()}
        elif r_names < 0.6:
            # conventional root names
            ren = {query["name"]: "Query"}
            if roots["mutation"] and rnd.random() < 0.7:
                ren[roots["mutation"]] = "Mutation"
            if roots["subscription"] and rnd.random() < 0.7:
                ren[roots["subscription"]] = "Subscription"
            self.rename(ren)
            roots = {k: (ren.get(v, v) if v else None) for k, v in roots.items()}
        directives = []
        for k in range(rnd.randrange(0, 1 + sz)):
            locs = rnd.sample(LOCS_EXEC + LOCS_TS, rnd.randrange(1, 4))
            directives.append({"name": f"dir{k}", "description": self.text(0.3), "locations": locs, "repeatable": rnd.random() < 0.3,
                               "args": self.args(input_types, 0.6)})
        rnd.shuffle(self.types)
        return {"description": self.text(0.2), **roots, "types": self.types, "directives": directives}

    def rename(self, ren):
        def fix_t(t):
            return ["N", ren.get(t[1], t[1])] if t[0] == "N" else [t[0], fix_t(t[1])]
        for t in self.types:
            t["name"] = ren.get(t["name"], t["name"])
            t["interfaces"] = [ren.get(x, x) for x in t["interfaces"]]
            t["members"] = [ren.get(x, x) for x in t["members"]]
            for f in t["fields"]:
                f["type"] = fix_t(f["type"])
                for a in f["args"]:
                    a["type"] = fix_t(a["type"])
            for f in t["inputFields"]:
                f["type"] = fix_t(f["type"])
        self.by_name = {t["name"]: t for t in self.types}


def gen_schema(seed, size=None, adversarial_text=True):
    S = Gen(seed, size, adversarial_text).build()
    # the empty URL is a URL too (decided from the seed alone, so that the generator's random stream stays as it was)
    if seed % 4 == 1:
        for t in S["types"]:
            if t["kind"] == "SCALAR" and not t["name"].startswith("__") and t["name"] not in ("Int", "Float", "String", "Boolean", "ID"):
                t["specifiedBy"] = "" if t["specifiedBy"] is None or seed % 8 == 1 else t["specifiedBy"]
                break
    # object values in defaults are generated with their keys in definition order, which is also sorted order: turn them
    # round in a third of the schemas (the order of the keys of a literal is part of what is printed and introspected)
    if seed % 3 == 2:
        # ... and make sure there is such a value: an argument of the first field of the query type whose default names
        # two or more scalar fields of an input object type
        simple = {"Int": {"t": "i", "v": 1}, "Boolean": {"t": "b", "v": True}, "String": {"t": "s", "v": [115]}, "ID": {"t": "s", "v": [105, 100]}}
        q = next((t for t in S["types"] if t["name"] == S["query"] and t["fields"]), None)
        for t in S["types"]:
            if q is None or t["kind"] != "INPUT_OBJECT" or t["oneOf"]:
                continue
            usable = [f for f in t["inputFields"] if f["type"][0] == "N" and f["type"][1] in simple]
            required = [f for f in t["inputFields"] if f["type"][0] == "NN" and not f["hasDefault"]]
            if len(usable) >= 2 and not required and not any(a["name"] == "zd" for a in q["fields"][0]["args"]):
                q["fields"][0]["args"].append({"name": "zd", "type": ["N", t["name"]], "description": None, "deprecation": None, "hasDefault": True,
                                               "default": {"t": "o", "kv": [[f["name"], dict(simple[f["type"][1]])] for f in usable]}})
                break

        def rev(v):
            if v["t"] == "o":
                v["kv"] = [[k, rev(x)] for k, x in reversed(v["kv"])]
            elif v["t"] == "l":
                v["v"] = [rev(x) for x in v["v"]]
            return v
        for t in S["types"]:
            for f in t["fields"]:
                for a in f["args"]:
                    rev(a["default"])
            for f in t["inputFields"]:
                rev(f["default"])
        for d in S["directives"]:
            for a in d["args"]:
                rev(a["default"])
    return S


# valid definitions that carry the name of a specified directive but differ from it (older drafts, vendor variants)
REDEFINED = [
    {"name": "deprecated", "description": None, "locations": ["FIELD_DEFINITION", "ENUM_VALUE"], "repeatable": False,
     "args": [{"name": "reason", "type": ["N", "String"], "description": None, "deprecation": None, "hasDefault": True,
               "default": {"t": "s", "v": [ord(c) for c in "No longer supported"]}}]},
    {"name": "include", "description": "vendor variant", "locations": ["FIELD", "FRAGMENT_SPREAD", "INLINE_FRAGMENT"], "repeatable": False,
     "args": [{"name": "if", "type": ["NN", ["N", "Boolean"]], "description": None, "deprecation": None, "hasDefault": False, "default": {"t": "null"}},
              {"name": "unless", "type": ["N", "Boolean"], "description": None, "deprecation": None, "hasDefault": False, "default": {"t": "null"}}]},
    {"name": "skip", "description": None, "locations": ["FIELD"], "repeatable": True,
     "args": [{"name": "if", "type": ["NN", ["N", "Boolean"]], "description": None, "deprecation": None, "hasDefault": False, "default": {"t": "null"}}]},
    {"name": "specifiedBy", "description": None, "locations": ["SCALAR", "OBJECT"], "repeatable": False,
     "args": [{"name": "url", "type": ["NN", ["N", "String"]], "description": None, "deprecation": None, "hasDefault": False, "default": {"t": "null"}}]},
    {"name": "oneOf", "description": "old", "locations": ["INPUT_OBJECT", "FIELD_DEFINITION"], "repeatable": False, "args": []},
]


def with_redefined_directive(S, rnd):
    """S plus one directive that redefines a specified directive (its name is not reserved)"""
    import copy
    out = dict(S)
    out["directives"] = list(S["directives"]) + [copy.deepcopy(rnd.choice(REDEFINED))]
    return out


def _t(kind, name, **kw):
    d = {"kind": kind, "name": name, "description": None, "specifiedBy": None, "fields": [], "interfaces": [], "members": [], "values": [], "inputFields": [],
         "oneOf": False}
    d.update(kw)
    return d


def _iv(name, t):
    return {"name": name, "type": t, "description": None, "deprecation": None, "hasDefault": False, "default": {"t": "null"}}


def _f(name, t, args=()):
    return {"name": name, "type": t, "description": None, "deprecation": None, "args": list(args)}


def lone_schemas():
    """Small schemas in which a built-in scalar (never listed explicitly: it is in the schema only because something refers to
    it) is referred to from exactly one place, for every kind of place - in particular places no root reaches"""
    out = []
    for bt in ("Int", "Float", "ID"):
        for wrap in (lambda t: t, lambda t: ["NN", ["L", ["NN", t]]]):
            T = wrap(N(bt))
            q = _t("OBJECT", "Query", fields=[_f("a", N("String"))])
            places = {
                "interface-field-arg": [_t("INTERFACE", "Lone", fields=[_f("f", N("String"), [_iv("x", T)])])],
                "interface-field-type": [_t("INTERFACE", "Lone", fields=[_f("f", T)])],
                "interface-of-interface-arg": [_t("INTERFACE", "Lone", fields=[_f("f", N("String"), [_iv("x", T)])]),
                                               _t("INTERFACE", "Sub", interfaces=["Lone"], fields=[_f("f", N("String"), [_iv("x", T)])])],
                "unreached-object-arg": [_t("OBJECT", "Other", fields=[_f("f", N("String"), [_iv("x", T)])])],
                "unreached-object-type": [_t("OBJECT", "Other", fields=[_f("f", T)])],
                "unused-input-field": [_t("INPUT_OBJECT", "Unused", inputFields=[_iv("f", T)])],
                "union-member-field": [_t("OBJECT", "Member", fields=[_f("f", T)]), _t("UNION", "Un", members=["Member"])],
                "root-field-arg": [],
            }
            for place, extra in places.items():
                query = q if place != "root-field-arg" else _t("OBJECT", "Query", fields=[_f("a", N("String"), [_iv("x", T)])])
                out.append({"description": None, "query": "Query", "mutation": None, "subscription": None, "types": [query] + extra, "directives": [],
                            "_place": f"{place}:{bt}"})
            out.append({"description": None, "query": "Query", "mutation": None, "subscription": None, "types": [q],
                        "directives": [{"name": "dd", "description": None, "locations": ["FIELD"], "repeatable": False, "args": [_iv("x", T)]}],
                        "_place": f"directive-arg:{bt}"})
    return out


# ---------------------------------------------------------------------------------------------
# renderer 1: SDL text (own writer, independent of print_schema)

def q(text):
    out = ['"']
    for ch in text:
        cp = ord(ch)
        if ch == '"':
            out.append('\\"')
        elif ch == "\\":
            out.append("\\\\")
        elif ch == "\n":
            out.append("\\n")
        elif cp < 0x20 or cp == 0x7f:
            out.append("\\u%04X" % cp)
        else:
            out.append(ch)
    return "".join(out) + '"'


def val_sdl(v):
    t = v["t"]
    if t == "null":
        return "null"
    if t in ("i", "f", "e"):
        return str(v["v"])
    if t == "b":
        return "true" if v["v"] else "false"
    if t == "s":
        return q("".join(chr(c) for c in v["v"]))
    if t == "l":
        return "[" + ", ".join(val_sdl(x) for x in v["v"]) + "]"
    return "{" + ", ".join(f"{k}: {val_sdl(x)}" for k, x in v["kv"]) + "}"


def desc_sdl(d, ind=""):
    return f"{ind}{q(d)}\n" if d is not None else ""


def depr_sdl(r):
    if r is None:
        return ""
    return " @deprecated" if r == "No longer supported" else f" @deprecated(reason: {q(r)})"


def iv_sdl(a, ind):
    s = desc_sdl(a["description"], ind) + f"{ind}{a['name']}: {tstr(a['type'])}"
    if a["hasDefault"]:
        s += " = " + val_sdl(a["default"])
    return s + depr_sdl(a["deprecation"])


def args_sdl(args, ind):
    if not args:
        return ""
    return "(\n" + "\n".join(iv_sdl(a, ind + "  ") for a in args) + f"\n{ind})"


def to_sdl(S, types=None, directives=None, with_schema_block=True):
    out = []
    default_names = (S["query"] in (None, "Query") and S["mutation"] in (None, "Mutation") and S["subscription"] in (None, "Subscription"))
    type_names = {t["name"] for t in S["types"]}
    # the schema block is required when a root type has a non-default name, when a type with a default root name
    # exists but is not that root, or when the schema has a description
    shadow = any(n in type_names and S[k] != n for k, n in (("query", "Query"), ("mutation", "Mutation"), ("subscription", "Subscription")))
    if with_schema_block and (not default_names or shadow or S["description"] is not None) and S["query"]:
        ops = "".join(f"  {k}: {S[k]}\n" for k in ("query", "mutation", "subscription") if S[k])
        out.append(desc_sdl(S["description"]) + "schema {\n" + ops + "}")
    for d in (S["directives"] if directives is None else directives):
        out.append(desc_sdl(d["description"]) + f"directive @{d['name']}" + args_sdl(d["args"], "") + (" repeatable" if d["repeatable"] else "")
                   + " on " + " | ".join(d["locations"]))
    for t in (S["types"] if types is None else types):
        k = t["kind"]
        head = desc_sdl(t["description"])
        if k == "SCALAR":
            out.append(head + f"scalar {t['name']}" + (f" @specifiedBy(url: {q(t['specifiedBy'])})" if t["specifiedBy"] is not None else ""))
        elif k in ("OBJECT", "INTERFACE"):
            impl = (" implements " + " & ".join(t["interfaces"])) if t["interfaces"] else ""
            fs = "\n".join(desc_sdl(f["description"], "  ") + f"  {f['name']}" + args_sdl(f["args"], "  ") + f": {tstr(f['type'])}" + depr_sdl(f["deprecation"])
                           for f in t["fields"])
            out.append(head + f"{'type' if k == 'OBJECT' else 'interface'} {t['name']}{impl}" + (f" {{\n{fs}\n}}" if t["fields"] else ""))
        elif k == "UNION":
            out.append(head + f"union {t['name']}" + ((" = " + " | ".join(t["members"])) if t["members"] else ""))
        elif k == "ENUM":
            vs = "\n".join(desc_sdl(v["description"], "  ") + f"  {v['name']}" + depr_sdl(v["deprecation"]) for v in t["values"])
            out.append(head + f"enum {t['name']}" + (f" {{\n{vs}\n}}" if t["values"] else ""))
        else:
            fs = "\n".join(iv_sdl(f, "  ") for f in t["inputFields"])
            out.append(head + f"input {t['name']}" + (" @oneOf" if t["oneOf"] else "") + (f" {{\n{fs}\n}}" if t["inputFields"] else ""))
    return "\n\n".join(out) + "\n"


# ---------------------------------------------------------------------------------------------
# renderer 2: programmatic construction

def val_py(v):
    t = v["t"]
    if t == "null":
        return None
    if t == "i":
        return v["v"]
    if t == "f":
        return float(v["v"])
    if t == "b":
        return v["v"]
    if t == "s":
        return "".join(chr(c) for c in v["v"])
    if t == "e":
        return v["v"]           # external enum value = its name
    if t == "l":
        return [val_py(x) for x in v["v"]]
    return {k: val_py(x) for k, x in v["kv"]}


def _keys_turned(v):
    if v["t"] == "o":
        ks = [k for k, _ in v["kv"]]
        return ks != sorted(ks) or any(_keys_turned(x) for _, x in v["kv"])
    if v["t"] == "l":
        return any(_keys_turned(x) for x in v["v"])
    return False


def to_objects(S):
    from graphql.type import (GraphQLSchema, GraphQLObjectType, GraphQLInterfaceType, GraphQLUnionType, GraphQLEnumType, GraphQLEnumValue,
                              GraphQLInputObjectType, GraphQLInputField, GraphQLScalarType, GraphQLField, GraphQLArgument, GraphQLList,
                              GraphQLNonNull, GraphQLDirective, GraphQLInt, GraphQLFloat, GraphQLString, GraphQLBoolean, GraphQLID,
                              specified_directives, GraphQLDefaultInput)
    from graphql.language import DirectiveLocation
    builtin = {"Int": GraphQLInt, "Float": GraphQLFloat, "String": GraphQLString, "Boolean": GraphQLBoolean, "ID": GraphQLID}
    made = {}
    shared_defaults = {}

    def ref(t):
        if t[0] == "NN":
            return GraphQLNonNull(ref(t[1]))
        if t[0] == "L":
            return GraphQLList(ref(t[1]))
        return builtin.get(t[1]) or made[t[1]]

    def arg(a, cls):
        kw = {"description": a["description"], "deprecation_reason": a["deprecation"]}
        if a["hasDefault"]:
            # one GraphQLDefaultInput object serves every input value with an equal default (a module-level constant in user
            # code): what is derived from it must not depend on which type asked first
            pv = val_py(a["default"])
            key = repr((type(pv).__name__, pv))
            if key not in shared_defaults:
                if _keys_turned(a["default"]):
                    # a default *value* is printed with its fields in definition order; only a default *literal* keeps
                    # the order in which it was written (gen_schema turns the keys round in a third of the schemas)
                    from graphql.language import parse_const_value
                    shared_defaults[key] = GraphQLDefaultInput(literal=parse_const_value(val_sdl(a["default"])))
                else:
                    shared_defaults[key] = GraphQLDefaultInput(value=pv)
            kw["default"] = shared_defaults[key]
        return cls(ref(a["type"]), **kw)

    def fields(t):
        return lambda: {f["name"]: GraphQLField(ref(f["type"]), args={a["name"]: arg(a, GraphQLArgument) for a in f["args"]},
                                                description=f["description"], deprecation_reason=f["deprecation"]) for f in t["fields"]}

    for t in S["types"]:
        k = t["kind"]
        if k == "SCALAR":
            made[t["name"]] = GraphQLScalarType(t["name"], description=t["description"], specified_by_url=t["specifiedBy"])
        elif k == "ENUM":
            made[t["name"]] = GraphQLEnumType(t["name"], {v["name"]: GraphQLEnumValue(v["name"], description=v["description"], deprecation_reason=v["deprecation"])
                                                          for v in t["values"]}, description=t["description"])
        elif k == "INPUT_OBJECT":
            made[t["name"]] = GraphQLInputObjectType(t["name"], (lambda t=t: {f["name"]: arg(f, GraphQLInputField) for f in t["inputFields"]}),
                                                     description=t["description"], is_one_of=t["oneOf"])
        elif k == "INTERFACE":
            made[t["name"]] = GraphQLInterfaceType(t["name"], fields(t), interfaces=(lambda t=t: [made[i] for i in t["interfaces"]]), description=t["description"])
        elif k == "OBJECT":
            made[t["name"]] = GraphQLObjectType(t["name"], fields(t), interfaces=(lambda t=t: [made[i] for i in t["interfaces"]]), description=t["description"])
        else:
            made[t["name"]] = GraphQLUnionType(t["name"], (lambda t=t: [made[m] for m in t["members"]]), description=t["description"])
    dirs = [GraphQLDirective(d["name"], [DirectiveLocation[l] for l in d["locations"]], args={a["name"]: arg(a, GraphQLArgument) for a in d["args"]},
                             is_repeatable=d["repeatable"], description=d["description"]) for d in S["directives"]]
    return GraphQLSchema(query=made.get(S["query"]), mutation=made.get(S["mutation"]) if S["mutation"] else None,
                         subscription=made.get(S["subscription"]) if S["subscription"] else None,
                         types=[made[t["name"]] for t in S["types"]],
                         # a directive of the schema that carries the name of a specified directive takes its place
                         directives=[*[d for d in specified_directives if d.name not in {x["name"] for x in S["directives"]}], *dirs],
                         description=S["description"])


# ---------------------------------------------------------------------------------------------
# projection: real schema -> abstract schema (public attributes only)

def proj_type(t):
    from graphql.type import is_non_null_type, is_list_type
    if is_non_null_type(t):
        return ["NN", proj_type(t.of_type)]
    if is_list_type(t):
        return ["L", proj_type(t.of_type)]
    return ["N", t.name]


def proj_ast_value(node, t=None):
    """default value literal -> wire value, read through the input type t where that matters: at an ID position an
    Int literal is the spelling of the ID with those digits"""
    from graphql.language import ast
    from graphql.type import is_non_null_type, is_list_type, is_input_object_type, GraphQLID
    while t is not None and is_non_null_type(t):
        t = t.of_type
    if isinstance(node, ast.NullValueNode):
        return {"t": "null"}
    if isinstance(node, ast.IntValueNode):
        if t is GraphQLID or (t is None and node.value == "-0"):        # read without a type, "-0" stays a spelling (it is no Int's print)
            return {"t": "s", "v": [ord(c) for c in node.value]}
        return {"t": "i", "v": int(node.value)}
    if isinstance(node, ast.FloatValueNode):
        return {"t": "f", "v": repr(float(node.value))}
    if isinstance(node, ast.StringValueNode):
        return {"t": "s", "v": [ord(c) for c in node.value]}
    if isinstance(node, ast.BooleanValueNode):
        return {"t": "b", "v": node.value}
    if isinstance(node, ast.EnumValueNode):
        return {"t": "e", "v": node.value}
    if isinstance(node, ast.ListValueNode):
        it = t.of_type if t is not None and is_list_type(t) else None
        return {"t": "l", "v": [proj_ast_value(x, it) for x in node.values]}
    if isinstance(node, ast.ObjectValueNode):
        fts = {n: f.type for n, f in t.fields.items()} if t is not None and is_input_object_type(t) else {}
        return {"t": "o", "kv": [[f.name.value, proj_ast_value(f.value, fts.get(f.name.value))] for f in node.fields]}
    return {"t": "other", "v": type(node).__name__}


def proj_iv(name, a):
    from graphql.utilities.get_default_value_ast import get_default_value_ast
    node = get_default_value_ast(a)
    return {"name": name, "type": proj_type(a.type), "description": a.description, "deprecation": a.deprecation_reason,
            "hasDefault": node is not None, "default": proj_ast_value(node, a.type) if node is not None else {"t": "null"}}


def project(schema):
    from graphql.type import (is_scalar_type, is_object_type, is_interface_type, is_union_type, is_enum_type, is_input_object_type,
                              is_specified_scalar_type, is_introspection_type, is_specified_directive)
    types = []
    for name, t in schema.type_map.items():
        if is_specified_scalar_type(t) or is_introspection_type(t):
            continue
        d = {"kind": None, "name": name, "description": t.description, "specifiedBy": None, "fields": [], "interfaces": [], "members": [], "values": [],
             "inputFields": [], "oneOf": False}
        if is_scalar_type(t):
            d["kind"], d["specifiedBy"] = "SCALAR", t.specified_by_url
        elif is_object_type(t) or is_interface_type(t):
            d["kind"] = "OBJECT" if is_object_type(t) else "INTERFACE"
            d["interfaces"] = [i.name for i in t.interfaces]
            d["fields"] = [{"name": fn, "type": proj_type(f.type), "description": f.description, "deprecation": f.deprecation_reason,
                            "args": [proj_iv(an, a) for an, a in f.args.items()]} for fn, f in t.fields.items()]
        elif is_union_type(t):
            d["kind"], d["members"] = "UNION", [m.name for m in t.types]
        elif is_enum_type(t):
            d["kind"] = "ENUM"
            d["values"] = [{"name": vn, "description": v.description, "deprecation": v.deprecation_reason} for vn, v in t.values.items()]
        elif is_input_object_type(t):
            d["kind"], d["oneOf"] = "INPUT_OBJECT", bool(t.is_one_of)
            d["inputFields"] = [proj_iv(fn, f) for fn, f in t.fields.items()]
        types.append(d)
    dirs = [{"name": d.name, "description": d.description, "locations": [l.name for l in d.locations], "repeatable": d.is_repeatable,
             "args": [proj_iv(an, a) for an, a in d.args.items()]} for d in schema.directives if not is_specified_directive(d)]
    return {"description": schema.description, "query": schema.query_type.name if schema.query_type else None,
            "mutation": schema.mutation_type.name if schema.mutation_type else None,
            "subscription": schema.subscription_type.name if schema.subscription_type else None, "types": types, "directives": dirs}


def norm_value(v):
    """float spelling is normalised, everything else is structural"""
    if v["t"] == "f":
        return {"t": "f", "v": repr(float(v["v"]))}
    if v["t"] == "l":
        return {"t": "l", "v": [norm_value(x) for x in v["v"]]}
    if v["t"] == "o":
        return {"t": "o", "kv": [[k, norm_value(x)] for k, x in v["kv"]]}
    return v


INT_SPELLING = re.compile(r"-?(?:0|[1-9][0-9]*)\Z")


def untyped_value(v):
    """Normal form for comparing default values that were read WITHOUT their type (introspection gives the printed
    literal only): a string that spells an integer and that integer are the same thing (an ID prints as an Int
    literal); integers beyond 32 bits are kept as their digits."""
    if v["t"] == "s":
        text = "".join(chr(c) for c in v["v"])
        if INT_SPELLING.match(text) and text != "-0":
            return untyped_value({"t": "i", "v": int(text)})
        return v
    if v["t"] == "i":
        return v if -2 ** 31 <= v["v"] < 2 ** 31 else {"t": "s", "v": [ord(c) for c in str(v["v"])]}
    if v["t"] == "l":
        return {"t": "l", "v": [untyped_value(x) for x in v["v"]]}
    if v["t"] == "o":
        return {"t": "o", "kv": [[k, untyped_value(x)] for k, x in v["kv"]]}
    return v


def untyped_defaults(S):
    """S with every default value in the untyped normal form"""
    def iv(a):
        return {**a, "default": untyped_value(a["default"])}
    out = dict(S)
    out["types"] = [{**t, "fields": [{**f, "args": [iv(a) for a in f["args"]]} for f in t["fields"]], "inputFields": [iv(f) for f in t["inputFields"]]}
                    for t in S["types"]]
    out["directives"] = [{**d, "args": [iv(a) for a in d["args"]]} for d in S["directives"]]
    return out


def normalise(S, ordered=True):
    """canonical form for comparisons: defaults normalised; optionally order-insensitive"""
    def iv(a):
        return {**a, "default": norm_value(a["default"])}

    def ty(t):
        t = dict(t)
        t["fields"] = [{**f, "args": [iv(a) for a in f["args"]]} for f in t["fields"]]
        t["inputFields"] = [iv(f) for f in t["inputFields"]]
        if not ordered:
            t["fields"] = sorted(({**f, "args": sorted(f["args"], key=lambda a: a["name"])} for f in t["fields"]), key=lambda f: f["name"])
            t["inputFields"] = sorted(t["inputFields"], key=lambda f: f["name"])
            t["values"] = sorted(t["values"], key=lambda v: v["name"])
            t["interfaces"] = sorted(t["interfaces"])
            t["members"] = sorted(t["members"])
        return t
    out = dict(S)
    out["types"] = [ty(t) for t in S["types"]]
    out["directives"] = [{**d, "args": [iv(a) for a in d["args"]]} for d in S["directives"]]
    if not ordered:
        out["types"] = sorted(out["types"], key=lambda t: t["name"])
        out["directives"] = sorted(({**d, "locations": sorted(d["locations"]), "args": sorted(d["args"], key=lambda a: a["name"])} for d in out["directives"]),
                                   key=lambda d: d["name"])
    return out


def diff(a, b, path=""):
    """first difference between two JSON-like values, as a string (or None)"""
    if type(a) is not type(b):
        return f"{path}: {a!r} vs {b!r}"
    if isinstance(a, dict):
        for k in list(a) + [k for k in b if k not in a]:
            if k not in a or k not in b:
                return f"{path}.{k}: present {k in a} vs {k in b}"
            d = diff(a[k], b[k], f"{path}.{k}")
            if d:
                return d
        return None
    if isinstance(a, list):
        if len(a) != len(b):
            names = lambda l: [x.get("name") if isinstance(x, dict) else x for x in l]     # noqa: E731
            return f"{path}: length {len(a)} vs {len(b)}: {names(a)[:8]} vs {names(b)[:8]}"
        for i, (x, y) in enumerate(zip(a, b)):
            d = diff(x, y, f"{path}[{x.get('name', i) if isinstance(x, dict) else i}]")
            if d:
                return d
        return None
    return None if a == b else f"{path}: {a!r} vs {b!r}"


# ---------------------------------------------------------------------------------------------
# wire form for SchemaValid.tla / SchemaV.tla

def _txt(s):
    return {"p": s is not None, "cp": [ord(c) for c in (s or "")]}


def _iv_wire(a):
    return {"name": a["name"], "type": a["type"], "description": _txt(a["description"]), "deprecation": _txt(a["deprecation"]),
            "deprecated": a["deprecation"] is not None, "reserved": a["name"].startswith("__"), "hasDefault": a["hasDefault"],
            "default": norm_value(a["default"])}


def to_wire(S):
    types = []
    for t in S["types"]:
        types.append({
            "kind": t["kind"], "name": t["name"], "reserved": t["name"].startswith("__"), "description": _txt(t["description"]),
            "specifiedBy": _txt(t["specifiedBy"]), "oneOf": bool(t["oneOf"]), "interfaces": list(t["interfaces"]), "members": list(t["members"]),
            "fields": [{"name": f["name"], "reserved": f["name"].startswith("__"), "type": f["type"], "description": _txt(f["description"]),
                        "deprecation": _txt(f["deprecation"]), "deprecated": f["deprecation"] is not None, "args": [_iv_wire(a) for a in f["args"]]}
                       for f in t["fields"]],
            "values": [{"name": v["name"], "reserved": v["name"].startswith("__"), "description": _txt(v["description"]),
                        "deprecation": _txt(v["deprecation"]), "deprecated": v["deprecation"] is not None} for v in t["values"]],
            "inputFields": [_iv_wire(f) for f in t["inputFields"]]})
    return {"description": _txt(S["description"]), "query": S["query"] or "", "mutation": S["mutation"] or "", "subscription": S["subscription"] or "",
            "types": types,
            "directives": [{"name": d["name"], "reserved": d["name"].startswith("__"), "description": _txt(d["description"]), "locations": list(d["locations"]),
                            "repeatable": bool(d["repeatable"]), "args": [_iv_wire(a) for a in d["args"]]} for d in S["directives"]]}
