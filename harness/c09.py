"""C09 - ignored tokens are ignored: the token stream is the lexical grammar's, layout never matters.

M+G: LexEnum.tla enumerates every string up to MaxLen over three 16-symbol alphabets; TLC checks the
     grammar theorems (spans, filler insertion at every boundary, Strip laws) and emits Lex(s); the real
     lexer's tokens (kinds, spans, values) are compared with it and the real strip_ignored_characters
     output of every lexable string is validated by TLC (LexV.tla: StripOK).
V:   generated / mutated documents over the full grammar: real tokens, token count and strip output are
     evaluated by TLC against Lexical.tla; AST invariance under filler insertion at every boundary the
     spec names, under strip, strip idempotence, rejection preserved, token-limit equivalence.
"""
from __future__ import annotations

import random

from . import common, gen_doc, lexbind
from .common import Evidence, Verdicts, run_tlc, pmap, seed

PROP = "C09"
ALPHABETS = ["NumAlpha", "StrAlpha", "LayAlpha"]
FILLERS = [" ", "\t", "\n", "\r", "\r\n", ",", "\ufeff", "#c\n", "#a\n#b\n", "#a\r#b\r\n , #c\n"]


def _g_chunk(recs):
    from graphql.utilities import strip_ignored_characters
    from graphql import GraphQLSyntaxError
    out = []
    strips = []
    stats = {"agree": 0, "lexable": 0}
    for rec in recs:
        text = lexbind.from_cps(rec["s"])
        cls, detail = lexbind.compare(text, rec["r"])
        if cls == "agree":
            stats["agree"] += 1
        else:
            out.append((cls, rec["s"], detail))
        # strip: defined exactly on sources that lex
        try:
            st = strip_ignored_characters(text)
            st2 = strip_ignored_characters(st)
            if not rec["r"]["ok"]:
                out.append(("strip-accepts-unlexable", rec["s"], None))
            else:
                stats["lexable"] += 1
                if st2 != st:
                    out.append(("strip-not-idempotent", rec["s"], {"once": lexbind.cps(st), "twice": lexbind.cps(st2)}))
                strips.append({"s": rec["s"], "t": lexbind.cps(st)})
        except GraphQLSyntaxError:
            if rec["r"]["ok"]:
                out.append(("strip-rejects-lexable", rec["s"], None))
        except Exception as e:  # noqa: BLE001
            if rec["r"]["ok"]:
                out.append(("strip-raises", rec["s"], type(e).__name__))
            # on unlexable input an unexpected exception class is C01's business
    return out, strips, stats


def _blk_chunk(raws):
    """block string tokens: strip re-prints them minimally; the value must survive (validated by TLC: StripOK)"""
    from graphql.utilities import strip_ignored_characters
    from graphql import GraphQLSyntaxError
    out, strips = [], []
    for raw in raws:
        text = '"""' + raw.replace('"""', '\\"""') + '"""'
        try:
            st = strip_ignored_characters(text)
            if strip_ignored_characters(st) != st:
                out.append(("strip-not-idempotent", lexbind.cps(text), {"once": st}))
            strips.append({"s": lexbind.cps(text), "t": lexbind.cps(st)})
        except GraphQLSyntaxError:
            pass        # not a complete token (e.g. the body ends in a quote): Lexical.tla decides the same via StripOK's precondition
        except Exception as e:  # noqa: BLE001
            out.append(("strip-raises", lexbind.cps(text), type(e).__name__))
    return out, strips


def _tok_chunk(items):
    from graphql.utilities import strip_ignored_characters
    from graphql import GraphQLSyntaxError
    out, strips = [], []
    for toks, sep in items:
        text = sep.join(toks)
        try:
            st = strip_ignored_characters(text)
            if strip_ignored_characters(st) != st:
                out.append(("strip-not-idempotent", lexbind.cps(text), {"once": st}))
            strips.append({"s": lexbind.cps(text), "t": lexbind.cps(st)})
        except GraphQLSyntaxError:
            pass
        except Exception as e:  # noqa: BLE001
            out.append(("strip-raises", lexbind.cps(text), type(e).__name__))
    return out, strips


STRIPV = r'''---- MODULE StripV ----
EXTENDS Lexical, IOUtils
Cases == JsonDeserialize(IOEnv.CASES)
VARIABLE i
Init == i \in 1..Len(Cases)
Next == UNCHANGED i
Check == LET c == Cases[i] r == StripOK(c.s, c.t) IN
         IF r # "ok" THEN PrintT(ToJson([viol |-> i, clause |-> r]))
         ELSE StripShape(c.t) \/ PrintT(ToJson([viol |-> i, clause |-> "drift-strip-shape"]))
====
'''


def mutate(text: str, rng: random.Random) -> str:
    if not text:
        return "?"
    k = rng.randrange(len(text))
    r = rng.random()
    pal = ['"', "\\", "#", ".", "..", "-", "0", "1e", "\ud800", "'", "~", "\x00", " ", "\n", '"""', "{", "\\u", "$"]
    if r < 0.4:
        return text[:k] + rng.choice(pal) + text[k + 1:]
    if r < 0.7:
        return text[:k] + rng.choice(pal) + text[k:]
    if r < 0.85:
        return text[:k]
    return text[:k] + text[k + 1:]


def _v_chunk(items):
    """items: (text, parse options, expected_ok_by_generator) -> observations and python-side law checks"""
    from graphql import parse, GraphQLSyntaxError, GraphQLError
    from graphql.utilities import strip_ignored_characters
    recs, viols = [], []
    n_ins = n_lim = 0
    for text, opts, label in items:
        got = lexbind.real_lex(text)
        if got["ok"] not in (True, False):
            continue  # unexpected exception class: C01's clause
        rec = {"s": lexbind.cps(text), "ok": got["ok"], "at": got["at"], "toks": got["toks"], "count": 0, "strip": [1114112]}
        doc = None
        try:
            doc = parse(text, no_location=True, **opts)
        except GraphQLError:
            pass
        except Exception:  # noqa: BLE001
            pass
        if got["ok"]:
            rec["count"] = sum(1 for t in got["toks"] if t["kind"] != "Comment")
            try:
                st = strip_ignored_characters(text)
                rec["strip"] = lexbind.cps(st)
                if strip_ignored_characters(st) != st:
                    viols.append(("strip-not-idempotent", text, None))
                if doc is not None:
                    try:
                        if parse(st, no_location=True, **opts) != doc:
                            viols.append(("strip-changes-ast", text, {"stripped": st}))
                    except GraphQLError as e:
                        viols.append(("strip-breaks-parse", text, {"stripped": st, "error": str(e)[:100]}))
            except GraphQLSyntaxError:
                viols.append(("strip-rejects-lexable", text, None))
        else:
            try:
                strip_ignored_characters(text)
                viols.append(("strip-accepts-unlexable", text, None))
            except GraphQLSyntaxError:
                pass
            except Exception:  # noqa: BLE001
                pass
        if doc is not None:
            count = rec["count"]
            if doc.token_count != count:
                viols.append(("token-count", text, {"token_count": doc.token_count, "significant_tokens": count}))
            # token limit: accepted exactly when count <= n
            for n in sorted({0, 1, count - 1, count, count + 1, count // 2}):
                if n < 0:
                    continue
                n_lim += 1
                try:
                    parse(text, no_location=True, max_tokens=n, **opts)
                    acc = True
                except GraphQLSyntaxError:
                    acc = False
                if acc != (count <= n):
                    viols.append(("token-limit", text, {"n": n, "count": count, "accepted": acc}))
            # insertion of ignored material at every token boundary
            bounds = sorted({0, len(text)} | {t["start"] for t in got["toks"]} | {t["end"] for t in got["toks"]})
            comment_ends = {t["end"] for t in got["toks"] if t["kind"] == "Comment"}
            frng = random.Random(len(text))
            for b in bounds:
                for f in (FILLERS if label != "quick" else frng.sample(FILLERS, 2)):
                    if b in comment_ends and f[0] not in "\n\r":
                        continue
                    n_ins += 1
                    t2 = text[:b] + f + text[b:]
                    try:
                        if parse(t2, no_location=True, **opts) != doc:
                            viols.append(("insert-changes-ast", text, {"at": b, "filler": f}))
                    except GraphQLError as e:
                        viols.append(("insert-breaks-parse", text, {"at": b, "filler": f, "error": str(e)[:100]}))
        recs.append(rec)
    return recs, viols, n_ins, n_lim


def run(tier: str, rd):
    ev = Evidence(PROP, tier)
    vd = Verdicts(PROP)
    maxlen = 4          # 16^5 strings per alphabet took more than an hour in the thorough tier: the thorough tier widens the other families
    agree = lexable = 0
    allstrips = []
    for alpha in ALPHABETS:
        cfg = (f"INIT Init\nNEXT Next\nINVARIANT Laws\nINVARIANT Emit\nCONSTANT Alphabet <- {alpha}\nCONSTANT MaxLen = {maxlen}\n"
               "CONSTANT Prefix <- NoPrefix\nCONSTANT CheckLaws = TRUE\n")
        r = run_tlc(rd, "LexEnum", cfg, name=f"LexEnum_{alpha}", timeout=3000, heap="12g")
        ev.add_tlc(f"M+G {alpha} len<={maxlen}: grammar theorems + Lex(s) emitted", r)
        recs = list(r.json_lines())
        expected = sum(16 ** k for k in range(maxlen + 1))
        if len(recs) != expected:
            raise common.MachineryError(f"{alpha}: expected {expected} strings, parsed {len(recs)}")
        for out, strips, stats in pmap(_g_chunk, recs, chunk=5000):
            agree += stats["agree"]
            lexable += stats["lexable"]
            allstrips += strips
            for cls, s, detail in out:
                if cls == "raised":
                    continue  # an exception other than GraphQLSyntaxError is C01's verdict clause
                if cls == "error-offset-diff":
                    vd.note_drift("lexical error offset differs from Lexical.tla", {"s": s, "detail": detail})
                    continue
                vd.violation(cls, {"alphabet": alpha, "code_points": s, "text": lexbind.from_cps(s)}, detail)
        for rec in recs:
            ev.case(rec["s"], nontrivial=rec["r"]["ok"] and len(rec["r"]["toks"]) >= 1, key=alpha + str(rec["s"]))
        ev.traces += len(recs)
        ev.sample({"alphabet": alpha, "s": recs[len(recs) // 3]["s"], "spec": recs[len(recs) // 3]["r"]})
    # block string tokens over {a, SP, LF, quote, backslash, TAB}: every raw body up to the length bound
    import itertools
    blen = 7 if tier == "quick" else 8
    raws = ["".join(t) for k in range(blen + 1) for t in itertools.product('a \n"', repeat=k)]
    raws += ["".join(t) for k in range(5 if tier == "quick" else 6) for t in itertools.product('a \n"\\\t\r', repeat=k)]
    blkstrips = []
    for out, strips in pmap(_blk_chunk, raws, chunk=4000):
        blkstrips += strips
        for cls, cp, detail in out:
            vd.violation(cls, {"code_points": cp, "text": lexbind.from_cps(cp)}, detail)
    # every ordered pair (and the string-like triples) of representative tokens, separated by ignored material: stripping must
    # keep them apart exactly where the grammar would otherwise read them differently
    reps = ["a", "_b1", "1", "-0", "1.5", "1e3", '""', '"x"', '"\\""', '""""""', '"""b"""', '"""\n c\n"""', '"""\\""""""', "$", "&", "(", ")", "...", ":", "=", "@", "[", "]",
            "{", "|", "}", "!"]
    strs = [t for t in reps if t.startswith('"')]
    seqs = [(x, y) for x in reps for y in reps] + [(x, y, z) for x in strs for y in strs for z in strs]
    pair_out, pair_strips = [], []
    for out, strips in pmap(_tok_chunk, [(q, sep) for q in seqs for sep in (" ", "\n", ",", " #c\n")], chunk=2000):
        pair_strips += strips
        for cls, cp, detail in out:
            vd.violation(cls, {"code_points": cp, "text": lexbind.from_cps(cp)}, detail)
    blkstrips += pair_strips
    # strip outputs of the enumerated lexable strings, validated by TLC
    if tier == "quick":
        rng0 = random.Random(seed())
        rng0.shuffle(allstrips)
        allstrips = allstrips[:30000]
    allstrips = blkstrips + allstrips
    if allstrips:
        p = common.write_cases(rd, "strips.json", allstrips)
        r = run_tlc(rd, "StripV", common.v_cfg(), extra_modules={"StripV": STRIPV}, env={"CASES": str(p)}, timeout=3000, heap="12g")
        ev.add_tlc("V: strip_ignored_characters outputs of enumerated strings vs StripOK", r)
        for o in r.json_lines():
            c = allstrips[o["viol"] - 1]
            if o["clause"].startswith("drift"):
                vd.note_drift(o["clause"], c)
            else:
                vd.violation(o["clause"], {"code_points": c["s"], "stripped": c["t"]}, None)
        ev.traces += len(allstrips)
    # V: documents
    rng = random.Random(seed() + 1)
    ndocs = 250 if tier == "quick" else 2500
    items = []
    for k in range(ndocs):
        fa, dd = rng.random() < 0.3, rng.random() < 0.3
        toks, _tree = gen_doc.document(rng, frag_args=fa, dirs_on_dirs=dd)
        text = gen_doc.join_tokens(toks, rng)
        opts = {"experimental_fragment_arguments": fa, "experimental_directives_on_directive_definitions": dd}
        items.append((text, opts, tier))
        for _ in range(2):
            items.append((mutate(text, rng), opts, tier))
    from pathlib import Path
    for n in ("kitchen_sink.graphql", "schema_kitchen_sink.graphql"):
        items.append(((Path(__file__).parent / "corpus" / n).read_text(), {}, tier))
    vrecs, n_ins, n_lim = [], 0, 0
    for recs, viols, a, b in pmap(_v_chunk, items, chunk=20):
        vrecs += recs
        n_ins += a
        n_lim += b
        for cls, text, detail in viols:
            vd.violation(cls, {"text": text}, detail)
    p = common.write_cases(rd, "vcases.json", vrecs)
    r = run_tlc(rd, "LexV", common.v_cfg(), env={"CASES": str(p)}, timeout=3000, heap="12g")
    ev.add_tlc("V: tokens/count/strip of generated and mutated documents vs Lexical.tla", r)
    for o in r.json_lines():
        c = vrecs[o["viol"] - 1]
        if o["clause"].startswith("drift"):
            vd.note_drift(o["clause"], {"text": lexbind.from_cps(c["s"])[:200]})
        else:
            vd.violation(o["clause"], {"text": lexbind.from_cps(c["s"])}, {"impl_ok": c["ok"], "spec": o.get("spec", {}).get("ok")})
    ev.traces += len(vrecs)
    for c in vrecs:
        ev.case(c["s"], nontrivial=c["ok"] and len(c["toks"]) > 3)
    ev.sample({"v_document": lexbind.from_cps(vrecs[0]["s"])[:300], "ok": vrecs[0]["ok"], "count": vrecs[0]["count"]})
    ev.extra.update({"enumerated_agree": agree, "enumerated_lexable": lexable, "strip_outputs_validated": len(allstrips),
                     "block_string_tokens_stripped": len(blkstrips), "filler_insertions_parsed": n_ins, "token_limit_checks": n_lim, "v_documents": len(vrecs),
                     "v_documents_lexing": sum(1 for c in vrecs if c["ok"])})
    ev.rule = (f"G: all strings of length <= {maxlen} over each of 3 sixteen-symbol alphabets (numbers/names, strings, layout), exhaustive; "
               "non-trivial = lexes to >= 1 token. V: seeded grammar-generated documents with random ignored material and 2 mutants each; "
               "non-trivial = lexes to > 3 tokens")
    ev.exhaustive = True
    ev.assumptions = ["a character is represented by its class representative in the enumerated alphabets",
                      "error offsets and strip minimality are drift, not verdicts"]
    rc = vd.finish()
    ev.write(vd)
    return rc


if __name__ == "__main__":
    common.main_wrapper(PROP, run)
