"""Shared machinery: run directories, TLC runner, PrintT/JSON parsing, evidence, known findings.

Exit codes of every check: 0 = property held on everything explored (known findings are
printed as KNOWN-FINDING lines), 1 = at least one unlisted violation (VIOLATION line),
2 = machinery failure (TLC crash, unparsable output, harness bug).
"""
from __future__ import annotations

import hashlib
import json
import os
import re
import shutil
import subprocess
import sys
import time
from pathlib import Path

VERIF = Path(__file__).resolve().parent.parent
SPEC = VERIF / "spec"
# VERIF_OUT redirects evidence / replay / run directories (used by tools/seedtest.sh so that runs against a patched
# worktree do not overwrite the evidence of the unchanged tree); the registered commands never set it.
_OUT = Path(os.environ["VERIF_OUT"]) if os.environ.get("VERIF_OUT") else VERIF
EVIDENCE = _OUT / "evidence"
REPLAY = _OUT / "replay"
RUN = _OUT / ".run"
REPO = Path("/repo")
JAVA_CP = "/opt/veriftools/tla/tla2tools.jar:/opt/veriftools/tla/CommunityModules-deps.jar"
GUARD = "GRAPHQL_CORE_VERIF"


class MachineryError(Exception):
    """TLC or harness failure that is not a verdict about the code (exit 2)."""


def seed() -> int:
    try:
        return int(os.environ.get("VERIF_SEED", "0"))
    except ValueError:
        return 0


def run_dir(prop: str, tier: str) -> Path:
    d = RUN / f"{prop}-{tier}"
    if d.exists():
        shutil.rmtree(d, ignore_errors=True)
    d.mkdir(parents=True)
    return d


def clean_run_dir(d: Path) -> None:
    if os.environ.get("VERIF_KEEP_RUN"):
        return
    shutil.rmtree(d, ignore_errors=True)


_FINAL = re.compile(r"(\d+) states generated, (\d+) distinct states found")
_SIMFINAL = re.compile(r"The number of states generated: (\d+)")


class TlcResult:
    def __init__(self, out_path: Path, rc: int, wall: float):
        self.out_path = out_path
        self.rc = rc
        self.wall = wall
        self.generated = 0
        self.distinct = 0
        self.errors: list[str] = []
        self.invariant_violations: list[str] = []
        with open(out_path, errors="replace") as f:
            for line in f:
                m = _FINAL.search(line)
                if m:
                    self.generated, self.distinct = int(m.group(1)), int(m.group(2))
                m = _SIMFINAL.search(line)
                if m:
                    self.generated = max(self.generated, int(m.group(1)))
                    self.distinct = max(self.distinct, int(m.group(1)))
                if line.startswith("Error:"):
                    self.errors.append(line.strip())
                    m2 = re.match(r"Error: Invariant (\S+) is violated", line)
                    if m2:
                        self.invariant_violations.append(m2.group(1))

    def lines(self):
        with open(self.out_path, errors="replace") as f:
            yield from f

    def json_lines(self):
        """Values printed with PrintT(ToJson(x)): TLC prints the TLA+ string literal, i.e. a JSON
        string containing JSON."""
        for line in self.lines():
            if line.startswith('"{') or line.startswith('"['):
                try:
                    yield json.loads(json.loads(line))
                except Exception as e:  # pragma: no cover
                    raise MachineryError(f"unparsable PrintT line in {self.out_path}: {line[:200]!r}: {e}")

    def tail(self, n=40) -> str:
        return "".join(list(self.lines())[-n:])


def run_tlc(rd: Path, module: str, cfg: str, *, name: str | None = None, workers: int | str = 16,
            simulate: str | None = None, depth: int | None = None, tlc_seed: int | None = None,
            timeout: int = 3600, env: dict | None = None, cont: bool = False,
            deadlock: bool = False, heap: str = "8g", allow_violation: bool = False,
            extra_modules: dict[str, str] | None = None, dfs_queue: bool = False) -> TlcResult:
    """Run TLC on SPEC/<module>.tla with the given cfg text. All specs are copied to the run dir so
    that generated MC modules can sit next to them."""
    name = name or module
    work = rd / name
    work.mkdir(parents=True, exist_ok=True)
    for f in SPEC.glob("*.tla"):
        shutil.copy(f, work / f.name)
    for mname, text in (extra_modules or {}).items():
        (work / f"{mname}.tla").write_text(text)
    (work / f"{name}.cfg").write_text(cfg)
    cmd = ["java", "-XX:+UseParallelGC", f"-Xmx{heap}", "-Xss64m"]
    if dfs_queue:
        cmd.append("-Dtlc2.tool.queue.IStateQueue=StateDeque")
    cmd += ["-cp", JAVA_CP, "tlc2.TLC", "-workers", str(workers), "-metadir", str(work / "meta"),
            "-noGenerateSpecTE", "-config", f"{name}.cfg"]
    if not deadlock:
        cmd.append("-deadlock")  # -deadlock disables deadlock checking
    if cont:
        cmd.append("-continue")
    if simulate is not None:
        cmd += ["-simulate", simulate]
    if depth is not None:
        cmd += ["-depth", str(depth)]
    if tlc_seed is not None:
        cmd += ["-seed", str(tlc_seed)]
    cmd.append(f"{module}.tla")
    out_path = work / "tlc.out"
    e = dict(os.environ)
    e.pop("JAVA_TOOL_OPTIONS", None)
    e.update(env or {})
    t0 = time.time()
    with open(out_path, "w") as out:
        try:
            p = subprocess.run(cmd, cwd=work, stdout=out, stderr=subprocess.STDOUT, timeout=timeout, env=e)
            rc = p.returncode
        except subprocess.TimeoutExpired:
            subprocess.run(["pkill", "-f", str(work / "meta")])
            raise MachineryError(f"TLC timeout after {timeout}s on {module} ({name})")
    res = TlcResult(out_path, rc, time.time() - t0)
    shutil.rmtree(work / "meta", ignore_errors=True)
    # rc 0 = ok; 12 = safety violation; 13 = liveness violation; others = errors
    if rc != 0 and not (allow_violation and rc in (12, 13)):
        raise MachineryError(f"TLC rc={rc} on {module} ({name}):\n{res.tail(30)}")
    return res


def canon(obj) -> str:
    return json.dumps(obj, sort_keys=True, separators=(",", ":"), ensure_ascii=True)


def digest(obj) -> str:
    return hashlib.sha1(canon(obj).encode()).hexdigest()[:16]


# ----------------------------------------------------------------------------------------------
# known findings

def load_findings(prop: str) -> list[dict]:
    p = VERIF / "known_findings.json"
    if not p.exists():
        return []
    data = json.loads(p.read_text())
    return [f for f in data.get("findings", []) if f.get("property") == prop]


class Verdicts:
    """Collects violations of verdict clauses for one property; matches them against known findings."""

    def __init__(self, prop: str, matcher=None):
        self.prop = prop
        self.findings = [f for f in load_findings(prop) if f.get("status") == "finding"]
        self.matcher = matcher or default_matcher
        self.known_hits: dict[str, int] = {}
        for old in REPLAY.glob(f"{prop}-*.json"):      # replay files of earlier runs are stale
            old.unlink()
        self.violations: list[dict] = []
        self.drift: list[dict] = []
        self._printed = 0

    def violation(self, clause: str, case, detail=None, sig: dict | None = None):
        """sig: signature dict describing the failing input class; matched against finding signatures."""
        sig = dict(sig or {})
        sig.setdefault("clause", clause)
        for f in self.findings:
            if self.matcher(f.get("signature", {}), sig, case):
                self.known_hits[f["id"]] = self.known_hits.get(f["id"], 0) + 1
                return False
        v = {"clause": clause, "case": case, "detail": detail, "sig": sig}
        self.violations.append(v)
        return True

    def note_drift(self, what: str, case=None):
        if len(self.drift) < 50:
            self.drift.append({"what": what, "case": case})
        if len(self.drift) <= 5:
            print(f"MODEL-DRIFT property={self.prop} {what}")

    def finish(self) -> int:
        for f in self.findings:
            n = self.known_hits.get(f["id"], 0)
            if n:
                print(f"KNOWN-FINDING: property={self.prop} {f['what']} [{f['id']}; {n} cases]")
        if not self.violations:
            return 0
        REPLAY.mkdir(exist_ok=True)
        by_clause: dict[str, list] = {}
        for v in self.violations:
            by_clause.setdefault(v["clause"], []).append(v)
        for clause, vs in by_clause.items():
            path = REPLAY / f"{self.prop}-{re.sub(r'[^A-Za-z0-9_.-]', '_', clause)}.json"
            path.write_text(json.dumps({"property": self.prop, "clause": clause, "count": len(vs),
                                        "cases": vs[:20]}, indent=1, default=repr))
            print(f"VIOLATION property={self.prop} replay={path} clause={clause} count={len(vs)}")
            first = vs[0]
            print(f"  first: case={canon_short(first['case'])} detail={canon_short(first['detail'])}")
        return 1


def canon_short(x, n=400):
    try:
        s = json.dumps(x, default=repr, ensure_ascii=True)
    except Exception:
        s = repr(x)
    return s if len(s) <= n else s[:n] + "..."


def default_matcher(fsig: dict, sig: dict, case) -> bool:
    """A finding signature matches when every key it names is present and equal in the violation's
    signature (so a finding can only suppress the specific class it describes)."""
    if not fsig:
        return False
    for k, v in fsig.items():
        if k.endswith("_in"):
            if sig.get(k[:-3]) not in v:
                return False
        elif sig.get(k) != v:
            return False
    return True


# ----------------------------------------------------------------------------------------------
# evidence

class Evidence:
    def __init__(self, prop: str, tier: str, level: str = "model_checking"):
        self.prop, self.tier, self.level = prop, tier, level
        self.t0 = time.time()
        self.states = 0
        self.transitions = 0
        self.traces = 0
        self.evaluations = 0
        self.distinct: set[str] = set()
        self.samples: list = []
        self.extra: dict = {}
        self.assumptions: list[str] = []
        self.rule = ""
        self.tlc_runs: list[dict] = []
        self.exhaustive = False

    def add_tlc(self, label: str, r: TlcResult):
        self.states += r.distinct
        self.transitions += r.generated
        self.tlc_runs.append({"run": label, "generated": r.generated, "distinct": r.distinct,
                              "wall_s": round(r.wall, 1)})

    def case(self, obj, nontrivial: bool = True, key: str | None = None):
        self.evaluations += 1
        if nontrivial:
            self.distinct.add(key if key is not None else digest(obj))

    def sample(self, obj, limit=6):
        if len(self.samples) < limit:
            self.samples.append(obj)

    def write(self, verdicts: Verdicts | None = None, violations: int | None = None):
        EVIDENCE.mkdir(exist_ok=True)
        cov = {
            "states": self.states, "transitions": self.transitions,
            "traces_validated_against_impl": self.traces,
            "evaluations": self.evaluations, "distinct_nontrivial": len(self.distinct),
            "rule": self.rule, "samples": self.samples or ["(none)"],
            "exhaustive": self.exhaustive, "tlc_runs": self.tlc_runs,
        }
        cov.update(self.extra)
        if verdicts is not None:
            cov["known_finding_hits"] = verdicts.known_hits
            cov["model_drift"] = verdicts.drift[:20]
            cov["model_drift_count"] = len(verdicts.drift)
        doc = {
            "property_id": self.prop, "tier": self.tier, "seed": seed(), "level": self.level,
            "coverage": cov, "assumptions": self.assumptions,
            "wall_s": round(time.time() - self.t0, 2),
            "violations": (len(verdicts.violations) if verdicts is not None else (violations or 0)),
        }
        (EVIDENCE / f"{self.prop}.json").write_text(json.dumps(doc, indent=1, default=repr) + "\n")
        return doc


def main_wrapper(prop: str, fn):
    """fn(tier, rd) -> exit code. Handles machinery failures uniformly."""
    import argparse
    ap = argparse.ArgumentParser()
    ap.add_argument("--tier", default=os.environ.get("VERIF_TIER", "quick"), choices=["quick", "thorough"])
    ap.add_argument("--replay", default=None)
    args = ap.parse_args(sys.argv[2:] if len(sys.argv) > 1 and sys.argv[1].upper() == prop else sys.argv[1:])
    os.environ[GUARD] = "1"
    rd = run_dir(prop, args.tier)
    try:
        rc = fn(args.tier, rd, args.replay) if fn.__code__.co_argcount >= 3 else fn(args.tier, rd)
    except MachineryError as e:
        print(f"MACHINERY-FAILURE property={prop}: {e}", file=sys.stderr)
        sys.exit(2)
    finally:
        clean_run_dir(rd)
    sys.exit(rc)


# ----------------------------------------------------------------------------------------------
# parallel map over chunks (fork; the worker function must be a module-level function)

def pmap(func, items: list, nproc: int = 16, chunk: int | None = None):
    import multiprocessing as mp
    if not items:
        return []
    if chunk is None:
        chunk = max(1, min(2000, len(items) // (nproc * 4) or 1))
    chunks = [items[i:i + chunk] for i in range(0, len(items), chunk)]
    if nproc <= 1 or len(chunks) == 1:
        return [func(c) for c in chunks]
    ctx = mp.get_context("fork")
    with ctx.Pool(nproc) as pool:
        return pool.map(func, chunks)


def v_cfg(invariants=("Check",), constants: str = "") -> str:
    inv = "\n".join(f"INVARIANT {i}" for i in invariants)
    return f"INIT Init\nNEXT Next\n{inv}\nCHECK_DEADLOCK FALSE\n{constants}\n"


def write_cases(rd: Path, name: str, cases: list) -> Path:
    p = rd / name
    p.write_text(json.dumps(cases, ensure_ascii=True, separators=(",", ":")))
    return p
