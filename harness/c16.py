"""C16 - leaf results are serialised within the specification's value domains.

P-spec: Scalars.tla - InDomain / Faithful / SameMeaning over value descriptors (exact rationals as limbs).
V: a systematic palette of Python values (bool, ints incl. 2^31 boundaries, > 2^53 and > 2^1024, floats incl.
   -0.0 / nan / inf / subnormal, numeric-looking, padded, underscored and non-ASCII-digit strings, bytes,
   containers, Decimal / Fraction, subclasses of builtins, custom objects with __str__) x the five built-in
   scalars and generated enums (hashable / unhashable / None / duplicate internal values). Each value goes through
   coerce_output_value directly and through a leaf position of an executed response; the outcome, the emitted
   value's descriptor and the result of feeding it back to the type's input coercion are evaluated by TLC.
   The descriptor of a concrete value is computed here with exact Fraction arithmetic, never by the library.
"""
from __future__ import annotations

import math
import random
import re
from decimal import Decimal
from fractions import Fraction

from . import common, wire
from .common import Evidence, Verdicts, run_tlc, seed

PROP = "C16"
INT_RE = re.compile(r"^-?(0|[1-9][0-9]*)$")
FLOAT_RE = re.compile(r"^-?(0|[1-9][0-9]*)(\.[0-9]+)?([eE][+-]?[0-9]+)?$")


def num_desc(fr: Fraction, negzero=False):
    return {"cls": "fin", "neg": fr < 0 or negzero, "num": wire.limbs(abs(fr.numerator)), "den": wire.limbs(fr.denominator), "negzero": negzero}


BLANK = {"kind": "other", "b": False, "cls": "fin", "neg": False, "num": [], "den": [1], "negzero": False, "text": [], "numeric": "no"}


def describe(v):
    d = dict(BLANK)
    if v is None:
        d["kind"] = "none"
    elif isinstance(v, bool):
        d.update(kind="bool", b=v)
    elif isinstance(v, int):
        d.update(kind="int", **num_desc(Fraction(int(v))))
    elif isinstance(v, float):
        d["kind"] = "float"
        if math.isnan(v):
            d["cls"] = "nan"
        elif math.isinf(v):
            d.update(cls="inf", neg=v < 0)
        else:
            d.update(**num_desc(Fraction(v), negzero=(v == 0 and math.copysign(1, v) < 0)))
    elif isinstance(v, str):
        d.update(kind="str", text=[ord(c) for c in v[:64]])
        if len(v) <= 5000 and INT_RE.match(v):
            d.update(numeric="int", **num_desc(Fraction(int(v))))
        elif len(v) <= 60 and FLOAT_RE.match(v):
            try:
                d.update(numeric="float", **num_desc(Fraction(Decimal(v))))
            except Exception:  # noqa: BLE001
                pass
    return d


class MyInt(int):
    pass


class MyFloat(float):
    pass


class MyStr(str):
    pass


class Custom:
    def __init__(self, s):
        self.s = s

    def __str__(self):
        return self.s


class BadStr:
    def __str__(self):
        raise RuntimeError("no")


def palette(rng, n_random):
    vals = [True, False, 0, 1, -1, 2 ** 31 - 1, 2 ** 31, -2 ** 31, -2 ** 31 - 1, 2 ** 53, 2 ** 53 + 1, -(2 ** 53) - 1, 10 ** 30, 10 ** 400, 2 ** 1024, -(2 ** 1100),
            0.0, -0.0, 1.0, 1.5, -1.5, 0.1, 1e15, 2.0 ** 31, 2.0 ** 31 - 1, -2.0 ** 31, -2.0 ** 31 - 1, 2.0 ** 53, 1e300, 5e-324, 1.7976931348623157e308,
            float("nan"), float("inf"), float("-inf"), 3.0000000000000004,
            "", " ", "a", "1", "-1", "0", "-0", "01", "1.0", "1.5", "1e3", "1E3", "-1.5e-3", " 1", "1 ", "1_000", "0x10", "٣", "１２", "2147483647", "2147483648",
            "-2147483649", "9007199254740993", "1e400", "nan", "inf", "Infinity", "true", "RED", "1" * 400, "1.0e", ".5", "5.", "+1",
            b"1", b"", bytearray(b"2"), [], [1], (1,), {}, {"a": 1}, {1}, None, object(), Decimal("1"), Decimal("1.5"), Decimal("NaN"), Fraction(1, 2), Fraction(4, 2),
            MyInt(5), MyInt(2 ** 31), MyFloat(1.5), MyFloat(2.0), MyStr("7"), MyStr("x"), Custom("1"), Custom("abc"), Custom(""), BadStr(), complex(1, 0), range(3), 1j,
            lambda: 1, int, Ellipsis, NotImplemented]
    for _ in range(n_random):
        r = rng.random()
        if r < 0.3:
            vals.append(rng.choice([1, -1]) * rng.getrandbits(rng.choice([8, 31, 32, 33, 53, 54, 64, 200])))
        elif r < 0.6:
            vals.append(rng.choice([1, -1]) * rng.random() * 10 ** rng.randrange(-5, 40))
        elif r < 0.8:
            vals.append(str(rng.choice([1, -1]) * rng.getrandbits(rng.choice([4, 31, 33, 70]))))
        else:
            vals.append(repr(rng.random() * 10 ** rng.randrange(-3, 12)))
    return vals


def enum_types(rng):
    from graphql.type import GraphQLEnumType
    unhash = [1, 2]
    defs = [
        ("Plain", {"RED": 0, "GREEN": 1, "BLUE": 2}),
        ("Strs", {"A": "a", "B": "b"}),
        ("Unhash", {"L": unhash, "D": {"k": 1}, "T": (1, 2), "M": [3], "E": {"k": 2}}),
        ("NoneVal", {"NONE": None, "ONE": 1}),
        ("Dup", {"X": 1, "Y": 1, "Z": 2}),
        ("Mixed", {"T": True, "ONE": 1, "F": 1.0, "S": "1"}),
    ]
    out = [(n, GraphQLEnumType(n, v), v) for n, v in defs]
    # enum types defined by a Python Enum class, in the three ways the library offers (values / names / members as internal values)
    out.append(("ClsValues", GraphQLEnumType("ClsValues", PyColor), {m.name: m.value for m in PyColor}))
    out.append(("ClsNames", GraphQLEnumType("ClsNames", PyColor, names_as_values=True), {m.name: m.name for m in PyColor}))
    out.append(("ClsMembers", GraphQLEnumType("ClsMembers", PyColor, names_as_values=None), {m.name: m for m in PyColor}))
    out.append(("ClsInt", GraphQLEnumType("ClsInt", PyIntColor), {m.name: m.value for m in PyIntColor}))
    return out


import enum as _enum     # noqa: E402
PyColor = _enum.Enum("PyColor", {"RED": 0, "GREEN": 1, "BLUE": 2})
PyShade = _enum.Enum("PyShade", {"RED": 7, "PURPLE": 3, "GREEN": 1})        # another class: same names, other values / other names
PyIntColor = _enum.IntEnum("PyIntColor", {"RED": 0, "GREEN": 1})
FOREIGN = [PyShade.RED, PyShade.PURPLE, PyShade.GREEN, PyColor.RED, PyColor.BLUE, PyIntColor.RED, PyIntColor.GREEN]


def record(tname, names, vin, ser, parse):
    rec = {"type": tname, "enumNames": [[ord(c) for c in n] for n in names] or [[0]], "in": describe(vin), "err": False, "out": dict(BLANK),
           "backErr": False, "back": dict(BLANK), "enumBackSame": True}
    try:
        out = ser(vin)
    except Exception as e:  # noqa: BLE001
        rec["err"] = True
        rec["_errcls"] = type(e).__name__
        return rec, None
    rec["out"] = describe(out)
    try:
        back = parse(out)
        rec["back"] = describe(back)
        rec["_back"] = back
    except Exception:  # noqa: BLE001
        rec["backErr"] = True
    return rec, out


def run(tier: str, rd):
    from graphql import GraphQLError, build_schema, execute_sync, parse
    from graphql.type import GraphQLInt, GraphQLFloat, GraphQLString, GraphQLBoolean, GraphQLID, GraphQLObjectType, GraphQLField, GraphQLSchema
    ev = Evidence(PROP, tier)
    vd = Verdicts(PROP)
    rng = random.Random(seed())
    vals = palette(rng, 300 if tier == "quick" else 5000)
    scalars = [("Int", GraphQLInt), ("Float", GraphQLFloat), ("String", GraphQLString), ("Boolean", GraphQLBoolean), ("ID", GraphQLID)]
    recs = []
    # direct: coerce_output_value / coerce_input_value
    for tname, t in scalars:
        for v in vals:
            rec, out = record(tname, [], v, t.serialize, t.parse_value)
            rec["_meta"] = {"type": tname, "value": repr(v)[:80], "python_type": type(v).__name__, "route": "direct", "out": repr(out)[:80]}
            recs.append(rec)
    for ename, et, mapping in enum_types(rng):
        names = list(mapping)
        for v in list(mapping.values()) + vals[:60] + [[1, 2], {"k": 1}, (1, 2)] + FOREIGN:
            rec, out = record("Enum", names, v, et.serialize, et.parse_value)
            if not rec["err"] and not rec["backErr"]:
                back = rec.get("_back")
                try:
                    rec["enumBackSame"] = bool(back == v) or (back is v)
                except Exception:  # noqa: BLE001
                    rec["enumBackSame"] = False
            rec["_meta"] = {"type": ename, "value": repr(v)[:80], "route": "direct", "out": repr(out)[:80]}
            recs.append(rec)
    # the result is a function of the value, not of what the type object coerced before: one mutable buffer object, its contents
    # changed in place between calls on the same long-lived type object (a generator reusing its buffer)
    for ename, et, mapping in enum_types(rng):
        names = list(mapping)
        lbuf, dbuf = [], {}
        script = [(lbuf, [1, 2]), (lbuf, [3]), (lbuf, [9]), (lbuf, [1, 2]), (lbuf, []), (dbuf, {"k": 1}), (dbuf, {"k": 2}), (dbuf, {"k": 3}), (lbuf, [3]),
                  (dbuf, {"k": 1}), (lbuf, [3, 4]), (dbuf, {})]
        for buf, content in script:
            if isinstance(buf, list):
                buf[:] = content
            else:
                buf.clear()
                buf.update(content)
            rec, out = record("Enum", names, buf, et.serialize, et.parse_value)
            if not rec["err"] and not rec["backErr"]:
                try:
                    rec["enumBackSame"] = bool(rec.get("_back") == content)
                except Exception:  # noqa: BLE001
                    rec["enumBackSame"] = False
            rec["_meta"] = {"type": ename, "value": repr(content)[:80] + " (reused buffer)", "route": "direct-reused-buffer", "out": repr(out)[:80]}
            recs.append(rec)
    # through execution: a leaf position of a response
    fields = {}
    for tname, t in scalars:
        fields["f" + tname] = GraphQLField(t)
    ets = enum_types(rng)
    for ename, et, mapping in ets:
        fields["e" + ename] = GraphQLField(et)
    schema = GraphQLSchema(GraphQLObjectType("Query", fields))
    doc = parse("{ " + " ".join(fields) + " }")
    for v in vals + FOREIGN:
        try:
            res = execute_sync(schema, doc, {f: v for f in fields})
        except Exception as e:  # noqa: BLE001
            vd.violation("execute-raises", {"value": repr(v)[:80]}, type(e).__name__)
            continue
        errpaths = {e.path[0] for e in (res.errors or []) if e.path}
        for tname, t in scalars + [("Enum:" + n, et) for n, et, _m in ets]:
            f = ("f" + tname) if not tname.startswith("Enum:") else "e" + tname[5:]
            names = list(dict(ets and {n: m for n, _e, m in ets}).get(tname[5:], {})) if tname.startswith("Enum:") else []
            if f in errpaths or res.data is None or res.data.get(f) is None:
                rec = {"type": "Enum" if tname.startswith("Enum:") else tname, "enumNames": [[ord(c) for c in n] for n in names] or [[0]], "in": describe(v),
                       "err": True, "out": dict(BLANK), "backErr": False, "back": dict(BLANK), "enumBackSame": True}
                if f not in errpaths and v is not None:
                    rec["err"] = False      # a null without an error for a non-null input: not a field error -> judged as emitted 'none'
                    rec["out"] = describe(None)
            else:
                out = res.data[f]
                tt = "Enum" if tname.startswith("Enum:") else tname
                rec, _o = record(tt, names, v, lambda _v, out=out: out, t.parse_value)
                if tt == "Enum" and not rec["backErr"]:
                    try:
                        rec["enumBackSame"] = bool(rec.get("_back") == v) or rec.get("_back") is v
                    except Exception:  # noqa: BLE001
                        rec["enumBackSame"] = False
            rec["_meta"] = {"type": tname, "value": repr(v)[:80], "route": "execute", "python_type": type(v).__name__}
            recs.append(rec)
    # ... and the items of a list field whose generator yields one reused buffer
    from graphql.type import GraphQLList
    for ename, et, mapping in ets:
        names = list(mapping)
        contents = [[1, 2], [3], [1, 2], [9], [3], [], [1, 2]]

        def gen(*_a, contents=contents):
            buf = []
            for c in contents:
                buf[:] = c
                yield buf
        lschema = GraphQLSchema(GraphQLObjectType("Query", {"l": GraphQLField(GraphQLList(et), resolve=gen)}))
        try:
            res = execute_sync(lschema, parse("{ l }"))
        except Exception as e:  # noqa: BLE001
            vd.violation("execute-raises", {"value": "reused buffer list of " + ename}, type(e).__name__)
            continue
        errix = {e.path[1] for e in (res.errors or []) if e.path and len(e.path) > 1}
        items = (res.data or {}).get("l") or [None] * len(contents)
        for k, c in enumerate(contents):
            if k in errix or items[k] is None:
                rec = {"type": "Enum", "enumNames": [[ord(ch) for ch in n] for n in names] or [[0]], "in": describe(c), "err": True, "out": dict(BLANK),
                       "backErr": False, "back": dict(BLANK), "enumBackSame": True}
            else:
                rec, _o = record("Enum", names, c, lambda _v, out=items[k]: out, et.parse_value)
                if not rec["backErr"]:
                    try:
                        rec["enumBackSame"] = bool(rec.get("_back") == c)
                    except Exception:  # noqa: BLE001
                        rec["enumBackSame"] = False
            rec["_meta"] = {"type": "Enum:" + ename, "value": repr(c) + f" (item {k} of a reused buffer)", "route": "execute-reused-buffer", "python_type": "list"}
            recs.append(rec)
    payload = [{k: x for k, x in r.items() if not k.startswith("_")} for r in recs]
    p = common.write_cases(rd, "scalars.json", payload)
    r = run_tlc(rd, "ScalarsV", common.v_cfg(), env={"CASES": str(p)}, timeout=3000, heap="12g")
    ev.add_tlc(f"V: {len(recs)} (type, value) serialisation records vs Scalars.tla", r)
    hits = {}
    for o in r.json_lines():
        rec = recs[o["viol"] - 1]
        hits[o["clause"]] = hits.get(o["clause"], 0) + 1
        if o["clause"].startswith("drift"):
            vd.note_drift(o["clause"], rec["_meta"])
            continue
        vd.violation(o["clause"], rec["_meta"], {"in": rec["in"]["kind"], "out": rec["out"], "back": rec["back"] if not rec["backErr"] else "rejected"},
                     {"clause": o["clause"], "type": rec["type"], "in_kind": rec["in"]["kind"], "route": rec["_meta"]["route"]})
    ev.traces += len(recs)
    for rec in recs:
        ev.case(None, nontrivial=True, key=rec["_meta"]["type"] + "|" + rec["_meta"]["value"] + "|" + rec["_meta"]["route"])
    ok = sum(1 for r0 in recs if not r0["err"])
    ev.sample({"meta": recs[3]["_meta"], "err": recs[3]["err"], "out_kind": recs[3]["out"]["kind"]})
    ev.extra.update({"values": len(vals), "records": len(recs), "emitted_values": ok, "field_errors": len(recs) - ok, "clause_hits": hits})
    ev.rule = "boundary palette + seeded random numbers/strings x 5 scalars x 6 enums x {direct, through execution}; distinct = (type, value repr, route)"
    ev.assumptions = ["a string 'denotes a number' only when it is a strict decimal integer or GraphQL float literal; permissive parsing of other spellings is inside the statement",
                      "Python's open value universe is sampled by a palette, not enumerated"]
    rc = vd.finish()
    ev.write(vd)
    return rc


if __name__ == "__main__":
    common.main_wrapper(PROP, run)
