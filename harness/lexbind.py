"""Observation of the real lexer in the vocabulary of spec/Lexical.tla (shared by C01, C08, C09)."""
from __future__ import annotations

KIND = None


def _kinds():
    global KIND
    if KIND is None:
        from graphql.language import TokenKind
        KIND = {TokenKind.NAME: "Name", TokenKind.INT: "Int", TokenKind.FLOAT: "Float", TokenKind.STRING: "String",
                TokenKind.BLOCK_STRING: "BlockString", TokenKind.COMMENT: "Comment"}
    return KIND


def cps(text: str) -> list[int]:
    return [ord(c) for c in text]


def from_cps(c) -> str:
    return "".join(chr(x) for x in c)


def real_lex(text: str) -> dict:
    """Run the real Lexer to exhaustion (comments included). Result:
    {"ok": True|False|"RAISED <class>", "at": offset, "toks": [{kind,start,end,value}]}"""
    from graphql import Source, GraphQLSyntaxError
    from graphql.language import Lexer, TokenKind
    kinds = _kinds()
    lx = Lexer(Source(text))
    toks = []
    tok = lx.token
    try:
        while True:
            nxt = lx.read_next_token(tok.end)
            if nxt.kind == TokenKind.EOF:
                return {"ok": True, "at": len(text), "toks": toks}
            toks.append({"kind": kinds.get(nxt.kind, "Punct"), "start": nxt.start, "end": nxt.end,
                         "value": cps(nxt.value if nxt.value is not None else text[nxt.start:nxt.end])})
            tok = nxt
    except GraphQLSyntaxError as e:
        return {"ok": False, "at": e.positions[0] if e.positions else -1, "toks": toks}
    except Exception as e:  # noqa: BLE001
        return {"ok": "RAISED " + type(e).__name__, "at": -1, "toks": toks}


def compare(text: str, want: dict, got: dict | None = None) -> tuple[str, object]:
    """Classify the real lexer's behaviour on `text` against the spec's Lex result `want`.
    -> ("agree" | "raised" | "accept-diff" | "token-diff" | "error-offset-diff", detail)"""
    got = got or real_lex(text)
    if got["ok"] not in (True, False):
        return "raised", got["ok"]
    if got["ok"] != want["ok"]:
        return "accept-diff", {"impl": "ok" if got["ok"] else f"rejects at {got['at']}",
                               "spec": "ok" if want["ok"] else f"rejects at {want['at']}"}
    if got["toks"] != want["toks"]:
        k = next((i for i, (a, b) in enumerate(zip(got["toks"], want["toks"])) if a != b), min(len(got["toks"]), len(want["toks"])))
        return "token-diff", {"index": k, "impl": got["toks"][k:k + 1], "spec": want["toks"][k:k + 1]}
    if not got["ok"] and got["at"] != want["at"]:
        return "error-offset-diff", {"impl": got["at"], "spec": want["at"]}
    return "agree", None
