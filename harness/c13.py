"""C13 - a document that passes validation cannot go wrong at execution time.

Documents: type-directed valid documents over the mini schema (gqlmini) and abstract mutants of them (argument literal
of another kind, variable of another type in an argument, nullable variable at a non-null position without a
default, unknown field, dropped required argument, fragment on an impossible type, leaf with / composite without a
sub-selection). Only documents the REAL validate() accepts are executed - the mutants it lets through are the
interesting ones. Variables are values the real variable coercion accepts.
Data: graphs that conform to the schema (no raising resolver, no ill-typed value, null only at nullable positions,
possible runtime types) and arbitrary graphs.
TLC (ExecuteV.tla) evaluates the specification's algorithm on every recorded execution:
  (1) with conforming data the response equals the specification's (shape: keys, nesting, nullability, leaf kinds) and
      every error is one the specification defers to run time: argument coercion failed and no resolver ran there;
  (2) with arbitrary data every real error position is one the specification's algorithm attributes to the data
      (a null under non-null, an ill-typed value, a raising resolver, an unresolvable abstract type).
A document accepted by validate() on which the specification's algorithm is undefined (TLC cannot evaluate it) or
differs from the real execution is a violation.
"""
from __future__ import annotations

import copy
import random

from . import common, gqlmini
from .common import Evidence, Verdicts, run_tlc, pmap, seed

PROP = "C13"


def all_fields(sels, out):
    for s in sels:
        if s["k"] == "F":
            out.append(s)
            all_fields(s["sel"], out)
        elif s["k"] == "I":
            all_fields(s["sel"], out)
    return out


def mutate(case, rnd):
    doc = case["doc"]
    fields = all_fields(doc["sel"], [])
    for fr in doc["frags"].values():
        all_fields(fr["sel"], fields)
    if not fields:
        return None
    kind = rnd.choice(["literal-kind", "var-type", "nullable-var", "unknown-field", "drop-required", "impossible-fragment", "leaf-selection", "no-selection",
                       "unknown-arg", "null-literal", "nullable-var-in-list"])
    with_args = [f for f in fields if f["args"]]
    if kind == "literal-kind" and with_args:
        f = rnd.choice(with_args)
        f["args"] = [list(a) for a in f["args"]]
        f["args"][0][1] = rnd.choice([{"t": "s", "v": "x"}, {"t": "b", "v": True}, {"t": "e", "v": "RED"}])
    elif kind == "var-type" and with_args:
        f = rnd.choice(with_args)
        f["args"] = [list(a) for a in f["args"]]
        f["args"][0][1] = {"t": "var", "n": "vt"}
        if not any(v["name"] == "vt" for v in doc["vardefs"]):
            doc["vardefs"].append({"name": "vt", "type": ["NN", ["N", "Boolean"]], "hasDefault": True, "default": {"t": "b", "v": True}})
    elif kind == "nullable-var":
        g = [f for f in fields if f["name"] == "g"]
        if not g:
            return None
        f = rnd.choice(g)
        f["args"] = [["req", {"t": "var", "n": "vi"}]]
        if not any(v["name"] == "vi" for v in doc["vardefs"]):
            doc["vardefs"].append({"name": "vi", "type": ["N", "Int"], "hasDefault": False, "default": {"t": "null"}})
    elif kind == "unknown-field":
        f = rnd.choice(fields)
        if f["name"] == "__typename":
            return None
        f["name"] = "nope"
        f["args"] = []
    elif kind == "drop-required":
        g = [f for f in fields if f["name"] == "g"]
        if not g:
            return None
        rnd.choice(g)["args"] = []
    elif kind == "impossible-fragment":
        target = rnd.choice([doc["sel"]] + [f["sel"] for f in fields if f["sel"]])
        target.append({"k": "I", "on": rnd.choice(["B", "Query", "A"]), "dirs": [], "sel": [{"k": "F", "alias": "", "name": "x", "args": [], "dirs": [], "sel": []}]})
    elif kind == "leaf-selection":
        leaves = [f for f in fields if not f["sel"] and f["name"] != "__typename"]
        if not leaves:
            return None
        rnd.choice(leaves)["sel"] = [{"k": "F", "alias": "", "name": "x", "args": [], "dirs": [], "sel": []}]
    elif kind == "no-selection":
        comp = [f for f in fields if f["sel"]]
        if not comp:
            return None
        rnd.choice(comp)["sel"] = []
    elif kind == "unknown-arg":
        f = rnd.choice(fields)
        f["args"] = [list(a) for a in f["args"]] + [["zzz", {"t": "i", "v": 1}]]
    elif kind == "nullable-var-in-list":
        sums = [f for f in fields if f["name"] == "sum"]
        if not sums:
            return None
        f = rnd.choice(sums)
        f["args"] = [["xs", {"t": "l", "v": [{"t": "i", "v": 1}, {"t": "var", "n": "vi"}]}]]
        if not any(v["name"] == "vi" for v in doc["vardefs"]):
            doc["vardefs"].append({"name": "vi", "type": ["N", "Int"], "hasDefault": False, "default": {"t": "null"}})
    elif kind == "null-literal":
        g = [f for f in fields if f["name"] == "g"]
        if not g:
            return None
        rnd.choice(g)["args"] = [["req", {"t": "null"}]]
    else:
        return None
    return kind


def decoys(case, rnd, text):
    """Other operations in the same document that declare the variables of Q under the same names with other types
    (stricter or weaker) and use them where those types fit: whatever validation remembers per variable name or per
    operation must not leak from one operation into the next. Q is executed by name."""
    defs, uses = [], []
    for k, v in enumerate(case["doc"]["vardefs"]):
        t = v["type"]
        base = gqlmini.named_of(t)
        if t[0] == "L" or (t[0] == "NN" and t[1][0] == "L"):
            if rnd.random() < 0.5:
                defs.append(f"${v['name']}: [Int!]!"); uses.append(f"d{k}: sum(xs: ${v['name']})")
            else:
                defs.append(f"${v['name']}: [Int]"); uses.append(f"d{k}: sum(ys: ${v['name']})")
        elif base == "Boolean":
            defs.append(f"${v['name']}: Boolean!"); uses.append(f"d{k}: a @include(if: ${v['name']})")
        elif t[0] == "NN":
            defs.append(f"${v['name']}: Int"); uses.append(f"d{k}: f(x: ${v['name']})")
        else:
            defs.append(f"${v['name']}: Int!"); uses.append(f"d{k}: g(req: ${v['name']})")
    if not defs:
        return text
    before = "".join(f"query D{j}({', '.join(defs)}) {{ {' '.join(uses)} }} " for j in range(rnd.randint(0, 2)))
    after = "".join(f" query E{j}({', '.join(defs)}) {{ {' '.join(uses)} }}" for j in range(rnd.randint(0 if before else 1, 1)))
    return before + text + after


def _chunk(seeds):
    from graphql import parse, validate, execute_sync, GraphQLError
    out = []
    for sd in seeds:
        rnd = random.Random(sd)
        case = gqlmini.gen_case(sd)
        mkind = None
        if rnd.random() < 0.6:
            case = copy.deepcopy(case)
            mkind = mutate(case, rnd)
        conforming = rnd.random() < 0.6
        if conforming:
            case["root"] = gqlmini.prune(gqlmini.gen_conforming_obj(rnd, "Query", 3), gqlmini.doc_field_names(case["doc"]))
        text = gqlmini.render_doc(case)
        if sd % 3 == 0 or (mkind in ("nullable-var", "nullable-var-in-list", "var-type") and sd % 2 == 0):
            text = decoys(case, rnd, text)
        try:
            doc = parse(text)
        except GraphQLError:
            out.append({"rejected": "syntax", "mutation": mkind})
            continue
        try:
            errs = validate(gqlmini.schema(), doc)
        except Exception as e:  # noqa: BLE001
            out.append({"viol": ("validate-raises", f"{type(e).__name__}: {str(e)[:120]}"), "_meta": {"seed": sd, "query": text, "mutation": mkind}})
            continue
        if errs:
            out.append({"rejected": "validation", "mutation": mkind})
            continue
        calls = []
        try:
            res = execute_sync(gqlmini.schema(), doc, gqlmini.to_py(case["root"]), variable_values=gqlmini.render_vars(case), operation_name="Q",
                               field_resolver=gqlmini.make_resolver(calls), type_resolver=gqlmini.type_resolver)
        except Exception as e:  # noqa: BLE001
            out.append({"viol": ("execute-raises-on-validated-document", f"{type(e).__name__}: {str(e)[:120]}"), "_meta": {"seed": sd, "query": text, "mutation": mkind}})
            continue
        rec = dict(case)
        rec["response"] = gqlmini.enc_response(res)
        if rec["response"]["requestError"]:
            out.append({"rejected": "variables", "mutation": mkind})     # variable values must be accepted by variable coercion
            continue
        rec["calls"] = calls
        rec["conforming"] = conforming
        rec["_meta"] = {"seed": sd, "query": text, "variables": gqlmini.render_vars(case), "mutation": mkind, "conforming": conforming,
                        "messages": [e.message[:80] for e in (res.errors or [])][:3]}
        out.append(rec)
    return out


def run(tier: str, rd):
    ev = Evidence(PROP, tier)
    vd = Verdicts(PROP)
    n = 4000 if tier == "quick" else 40000
    base = seed() * 1000000 + 1300000
    res = []
    for lst in pmap(_chunk, list(range(base, base + n)), chunk=250):
        res += lst
    for r in res:
        if "viol" in r:
            vd.violation(r["viol"][0], r["_meta"], r["viol"][1])
    rejected = [r for r in res if "rejected" in r]
    recs = [r for r in res if "response" in r]
    hits = {}
    for bi in range(0, len(recs), 5000):
        batch = recs[bi:bi + 5000]
        payload = [{k: v for k, v in r.items() if not k.startswith("_")} for r in batch]
        p = common.write_cases(rd, f"sound{bi}.json", payload)
        # a record on which the specification's algorithm is undefined makes TLC fail: evaluate such a batch record by record
        try:
            r = run_tlc(rd, "ExecuteV", common.v_cfg(), name=f"ExecuteV{bi}", env={"CASES": str(p)}, timeout=3400, heap="16g")
        except common.MachineryError as e:
            r = None
            msg = str(e)
            vd.violation("specification-undefined-on-accepted-document", {"batch": bi, "note": "TLC could not evaluate Execute.tla on a document validate() accepted"}, msg[-600:])
        if r is None:
            continue
        ev.add_tlc(f"V: {len(batch)} executions of validated documents vs Execute.tla (+ conforming-data clause)", r)
        for o in r.json_lines():
            rec = batch[o["viol"] - 1]
            hits[o["clause"]] = hits.get(o["clause"], 0) + 1
            if o["clause"].startswith("drift"):
                vd.note_drift(o["clause"], rec["_meta"])
            else:
                vd.violation(o["clause"], rec["_meta"], {"impl": rec["response"], "spec": o.get("spec")}, {"clause": o["clause"], "mutation": rec["_meta"]["mutation"]})
    ev.traces += len(recs)
    for r in recs:
        ev.case(None, nontrivial=len(r["calls"]) >= 3, key=common.digest([r["_meta"]["query"], r["_meta"]["variables"], r["root"]]))
    by_mut = {}
    for r in res:
        k = str(r.get("mutation") if "mutation" in r else r.get("_meta", {}).get("mutation"))
        b = by_mut.setdefault(k, {"generated": 0, "accepted_and_executed": 0})
        b["generated"] += 1
        b["accepted_and_executed"] += "response" in r
    conf = [r for r in recs if r["conforming"]]
    if recs:
        ev.sample(recs[0]["_meta"])
    ev.extra.update({"generated": n, "rejected": len(rejected), "executed": len(recs), "with_conforming_data": len(conf),
                     "conforming_with_deferred_null_errors": sum(1 for r in conf if r["response"]["errors"]), "by_mutation": by_mut, "clause_hits": hits})
    ev.rule = "seeded valid documents and abstract mutants accepted by the real validate(), executed over conforming and arbitrary data; non-trivial = >= 3 resolver calls"
    ev.assumptions = ["the mini schema of gqlmini (objects, interface, union, lists, non-null, arguments with defaults); custom scalars and directives other than skip/include are out of scope"]
    rc = vd.finish()
    ev.write(vd)
    return rc


if __name__ == "__main__":
    common.main_wrapper(PROP, run)
