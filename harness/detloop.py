"""Deterministic event loop: no selector, virtual time, explicit quiescence (DESIGN 3.3)."""
from __future__ import annotations

import asyncio


class NoQuiescence(RuntimeError):
    pass


class DetLoop(asyncio.BaseEventLoop):
    def __init__(self):
        super().__init__()
        self._vt = 0.0
        self.exception_log = []
        self.set_exception_handler(lambda loop, ctx: self.exception_log.append(ctx))

    def time(self):
        return self._vt

    def _process_events(self, events):
        pass

    def _write_to_self(self):
        pass

    class _Sel:
        def select(self, timeout):
            return []

    _selector = _Sel()

    def quiesce(self, limit=10000):
        """Run until no callback is ready or scheduled. Returns the number of loop iterations."""
        n = 0
        asyncio.events._set_running_loop(self)
        try:
            while self._ready or self._scheduled:
                if not self._ready:
                    self._vt = self._scheduled[0]._when
                self._run_once()
                n += 1
                if n > limit:
                    raise NoQuiescence(f"no quiescence after {limit} iterations")
        finally:
            asyncio.events._set_running_loop(None)
        return n

    def run(self, coro, limit=100000):
        """Run a coroutine to completion on this loop (it must not depend on external events)."""
        task = self.create_task(coro)
        self.quiesce(limit)
        if not task.done():
            task.cancel()
            self.quiesce(limit)
            raise NoQuiescence("coroutine did not finish at quiescence")
        return task.result()

    def pending_tasks(self):
        return [t for t in asyncio.all_tasks(self) if not t.done()]


class Gate:
    """A future created by the harness and handed to the code under test."""

    def __init__(self, loop, name):
        self.loop, self.name = loop, name
        self.fut = loop.create_future()

    def settle(self, value=None, exc=None):
        if self.fut.done():
            return False
        if exc is not None:
            self.fut.set_exception(exc)
        else:
            self.fut.set_result(value)
        return True

    @property
    def state(self):
        if self.fut.cancelled():
            return "cancelled"
        if self.fut.done():
            return "done"
        return "pending"
