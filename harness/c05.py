"""C05 - the incremental payload stream obeys the delivery protocol.

M: WorkQueue.tla (I-spec of work_queue.py + the publisher's id bookkeeping) is model checked over every
   well-formed work graph of the scope (MCWorkQueue.tla), all orders of task success/failure, stream
   batch/stop/fail and consumer pulls: protocol invariant (announced-before-data, completed once, child after
   parent, proper termination) and structural invariants of the graph.
G: behaviours of the model (one per terminal state + simulated walks) are replayed into the REAL WorkQueue on
   the deterministic loop; the real event batches are fed through the REAL IncrementalPublisher and the
   resulting payload sequence is validated by TLC against Delivery.tla (D1-D7).
X/V: end-to-end requests through experimental_execute_incrementally under exhaustive re-execution of all
   enabled settle/pull orders (small requests) and seeded random schedules (generated requests); every
   payload trace is validated by TLC against Delivery.tla.
"""
from __future__ import annotations

import json

from . import common, drive_wq, inctraces
from .common import Evidence, Verdicts, run_tlc, pmap, seed

PROP = "C05"

MCFG = """INIT MCInit
NEXT MCNext
CONSTANT Graphs = {{}}
CONSTANT FixNonRootFailure = TRUE
CONSTANT NG = {ng}
CONSTANT NT = {nt}
CONSTANT NS = {ns}
CONSTANT Extra = "{extra}"
INVARIANT ProtocolOK
INVARIANT RootsHaveNodes
INVARIANT RootParentNotPending
INVARIANT PendingCounts
INVARIANT OpenMatchesRoots
INVARIANT EndsProperly
{emit}
{view}
CHECK_DEADLOCK FALSE
"""

SCOPES = {
    "quick": [(2, 2, 1, "none"), (2, 1, 1, "tg"), (1, 1, 1, "ts"), (1, 1, 1, "sg"), (1, 1, 1, "ss")],
    "thorough": [(3, 2, 1, "none"), (2, 2, 2, "none"), (2, 2, 1, "tg"), (2, 2, 1, "ts"), (2, 2, 1, "sg"), (2, 2, 1, "ss"), (3, 2, 0, "tg")],
}
SIM = {"quick": [(3, 2, 1, "none", 1500), (2, 2, 1, "tg", 800), (2, 2, 1, "sg", 800)],
       "thorough": [(3, 3, 1, "none", 8000), (3, 2, 2, "none", 6000), (3, 2, 1, "tg", 6000), (2, 2, 1, "sg", 6000), (2, 2, 1, "ss", 4000), (2, 2, 1, "ts", 4000)]}


def _replay_chunk(behs):
    out = []
    for b in behs:
        try:
            got, want, drift, hang, trace = drive_wq.replay(b)
        except Exception as e:  # noqa: BLE001
            out.append({"error": f"{type(e).__name__}: {e}", "beh": b})
            continue
        out.append({"equal": (not drift and not hang and got == want), "drift": drift, "hang": hang, "trace": trace,
                    "got": got if got != want else None, "beh": b if (drift or hang or got != want) else None,
                    "key": common.digest([b["cfg"], b["hist"]]), "n_hist": len(b["hist"]),
                    "events": sorted({e["e"] for batch in want for e in batch})})
    return out


def validate_traces(rd, name, recs, ev, vd, prop_filter, label):
    """recs: trace records with _meta; runs DeliveryV; routes clause violations of `prop_filter` to vd."""
    if not recs:
        return {}
    payload = [{k: v for k, v in r.items() if not k.startswith("_")} for r in recs]
    p = common.write_cases(rd, f"{name}.json", payload)
    r = run_tlc(rd, "DeliveryV", common.v_cfg(), name=name, env={"CASES": str(p)}, timeout=3400, heap="16g")
    ev.add_tlc(label, r)
    counts = {}
    for o in r.json_lines():
        rec = recs[o["viol"] - 1]
        counts[o["clause"]] = counts.get(o["clause"], 0) + 1
        if o["prop"] == "drift":
            vd.note_drift(o["clause"], rec.get("_meta"))
        elif o["prop"] == prop_filter:
            meta = rec.get("_meta", {})
            vd.violation(o["clause"], meta, {"initial": payload[o["viol"] - 1]["initial"], "n_subsequent": len(payload[o["viol"] - 1]["subsequent"])},
                         {"clause": o["clause"], "request": meta.get("request", meta.get("kind"))})
    ev.traces += len(recs)
    return counts


def run(tier: str, rd):
    ev = Evidence(PROP, tier)
    vd = Verdicts(PROP)
    behs = []
    for ng, nt, ns, extra in SCOPES[tier]:
        cfg = MCFG.format(ng=ng, nt=nt, ns=ns, extra=extra, emit="INVARIANT EmitBehaviour", view="VIEW View")
        r = run_tlc(rd, "MCWorkQueue", cfg, name=f"M_{ng}{nt}{ns}{extra}", timeout=3400, heap="20g", allow_violation=True)
        ev.add_tlc(f"M: all well-formed work graphs NG={ng} NT={nt} NS={ns} extra={extra}, all schedules", r)
        if r.invariant_violations:
            # the design itself breaks the protocol in this scope: a model-level finding, shown with TLC's trace
            vd.violation("model-" + r.invariant_violations[0], {"scope": [ng, nt, ns, extra]}, r.tail(60),
                         {"clause": "model-" + r.invariant_violations[0]})
        behs += list(r.json_lines())
    for ng, nt, ns, extra, num in SIM[tier]:
        cfg = MCFG.format(ng=ng, nt=nt, ns=ns, extra=extra, emit="INVARIANT EmitBehaviour", view="")
        r = run_tlc(rd, "MCWorkQueue", cfg, name=f"S_{ng}{nt}{ns}{extra}", timeout=3400, heap="12g", workers=4,
                    simulate=f"num={num}", depth=80, tlc_seed=seed() + 1, allow_violation=True)
        ev.add_tlc(f"G: {num} simulated behaviours NG={ng} NT={nt} NS={ns} extra={extra}", r)
        if r.invariant_violations:
            vd.violation("model-" + r.invariant_violations[0], {"scope": [ng, nt, ns, extra], "mode": "simulate"}, r.tail(60),
                         {"clause": "model-" + r.invariant_violations[0]})
        behs += list(r.json_lines())
    # replay
    traces = []
    equal = 0
    event_kinds = set()
    for res in pmap(_replay_chunk, behs, chunk=400):
        for x in res:
            if "error" in x:
                raise common.MachineryError("replay driver failed: " + x["error"] + " on " + json.dumps(x["beh"])[:300])
            if x["equal"]:
                equal += 1
            else:
                vd.note_drift("real WorkQueue batches differ from WorkQueue.tla" + (" (hang)" if x["hang"] else ""),
                              {"drift": x["drift"], "beh": x["beh"], "got": x["got"]})
            event_kinds.update(x["events"])
            ev.case(None, nontrivial=x["n_hist"] >= 3, key=x["key"])
            if x["trace"] is not None:
                x["trace"]["_meta"] = {"kind": "direct", "key": x["key"], "beh": x["beh"]}
                traces.append(x["trace"])
    if behs:
        ev.sample({"behaviour": {"cfg": behs[0]["cfg"], "hist": behs[0]["hist"], "out": behs[0]["out"]}})
    c1 = validate_traces(rd, "direct", traces, ev, vd, "C05", "V: payloads of real WorkQueue+Publisher under model behaviours vs Delivery.tla")
    # end to end
    recs, info = inctraces.collect(tier, seed(), pmap)
    errs = [r for r in recs if "_error" in r]
    for e in errs[:3]:
        vd.note_drift("reference execution raised: " + e["_error"], e["_meta"])
    recs = [r for r in recs if "_error" not in r]
    for r in recs:
        ev.case(None, nontrivial=len(r["subsequent"]) >= 1, key=common.digest([r["_meta"].get("query"), r["_meta"].get("early"), r["_meta"].get("sched"), r["_meta"].get("seed")]))
    c2 = validate_traces(rd, "e2e", recs, ev, vd, "C05", "V: end-to-end payload traces (X exhaustive re-execution + seeded schedules) vs Delivery.tla")
    if recs:
        ev.sample({"end_to_end": recs[0]["_meta"], "n_payloads": 1 + len(recs[0]["subsequent"])})
    ev.extra.update({"behaviours_replayed": len(behs), "replay_equal_to_model": equal, "event_kinds_seen": sorted(event_kinds),
                     "direct_payload_traces": len(traces), "end_to_end_traces": len(recs), **info,
                     "clause_hits_direct": c1, "clause_hits_e2e": c2})
    ev.rule = ("M: every well-formed work graph in the listed scopes x every interleaving (exhaustive). G: one behaviour per terminal state plus "
               "simulated walks, replayed into the real WorkQueue/Publisher; non-trivial = >= 3 actions. X/V: every settle/pull order up to the "
               "depth bound for 8 fixed + generated small requests, seeded schedules for generated requests; non-trivial = >= 1 subsequent payload")
    ev.exhaustive = True
    ev.assumptions = ["WellFormedWork: the groups of a task are pairwise unrelated in the parent forest (guaranteed by the executor's plan)",
                      "one consumer action per quiescent point (batch boundaries inside one loop iteration are asyncio detail)"]
    rc = vd.finish()
    ev.write(vd)
    return rc


if __name__ == "__main__":
    common.main_wrapper(PROP, run)
