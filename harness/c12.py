"""C12 - validation is a deterministic, compositional function of document and schema.

P-spec: ValidateLaws.tla (V1 union of the rules, V2 layout independence, V3 determinism/purity, V4 error limit).
Documents: type-directed valid documents over the mini schema (gqlmini), near-valid mutants of them (renamed
field, dropped argument, changed literal kind, fragment cycle, duplicated variable, wrong type condition,
misplaced directive, unused/undefined variables and fragments) and arbitrary grammar-random documents. For each:
every specified rule alone, the full set, seeded random subsets and permutations; variants (reprinted, stripped,
ignored material inserted, descriptions added); max_errors in {0, 1, 2, 5, total-1, total}; each twice; structural
snapshots of document and schema before/after. TLC evaluates V1-V4 on the recorded error lists.
"""
from __future__ import annotations

import random
import re

from . import common, gen_doc, gqlmini
from .common import Evidence, Verdicts, run_tlc, pmap, seed

PROP = "C12"


def share_name(t):
    """a fragment that carries the operation's name (separate name spaces: the document stays as valid as it was),
    moved in front of the operation"""
    m = re.search(r"fragment (F\d+) on", t)
    if not m:
        return t
    t = re.sub(r"\b%s\b" % m.group(1), "Q", t)
    fm = re.search(r" fragment Q on \w+ \{", t)
    if fm:
        # cut the fragment definition (balanced braces) and put it first
        i = fm.start()
        j = t.index("{", i)
        depth = 0
        for k in range(j, len(t)):
            depth += t[k] == "{"
            depth -= t[k] == "}"
            if depth == 0:
                break
        t = t[i:k + 1].strip() + " " + t[:i] + t[k + 1:]
    return t


def sel_open(t):
    """index of the brace that opens the (first) operation's selection set: after the variable definitions, whose
    default values may contain braces"""
    j = t.find("(")
    if 0 <= j < t.find("{"):
        depth = 0
        for j in range(j, len(t)):
            depth += t[j] == "("
            depth -= t[j] == ")"
            if depth == 0:
                break
        return t.find("{", j)
    return t.find("{")


DEEP = "{ types { fields { type { fields { type { fields { type { fields { name } } } } } } } } }"


def deep_introspection(t):
    """introspection selections nested deeper than the depth rule allows: one through a meta field that the parent type does
    not have (no field definition there), then a well-placed one later in the document"""
    i = sel_open(t)
    first = "o { __schema %s } i { __type(name: \"A\") { fields { type { fields { type { fields { type { name } } } } } } } } " % DEEP
    return t[:i + 1] + " " + first + t[i + 1:] + " query Deep { __schema %s again: __schema %s }" % (DEEP, DEEP)


def frag_on_unknown(t):
    """a fragment on an unknown (or input) type that uses an operation variable of a type its position does not allow,
    defined in front of the operation that spreads it"""
    i = sel_open(t)
    head = t[:i]
    if "(" in head:
        head = head.replace("(", "($zz: String, ", 1)
    else:
        head = head.rstrip() + "($zz: String) "
    cond = "Nope" if len(t) % 2 else "In"
    return f"fragment FU on {cond} {{ f(x: $zz) g(req: $zz) }} " + head + "{ ...FU " + t[i + 1:]


TYPE_SYSTEM_TAIL = ('type Extra { other(flag: String = "yes", n: Int = "no", l: [Int] = [1, "x"]): String } input ExtraIn { a: Int = "bad" b: Boolean = 1 } '
                    'directive @dx(a: Int = 1.5) on FIELD extend type A { zz(k: Boolean = 1, e: In = {r: "r"}): Int }')


def type_system_defs(t):
    """type system definitions carrying default values (there is no input type at those positions for an executable
    document's validation), after or in front of the operations"""
    return t + " " + TYPE_SYSTEM_TAIL if len(t) % 3 else TYPE_SYSTEM_TAIL + " " + t


def oneof_variable(t):
    """a nullable variable of a OneOf input type, declared last, and a fragment in front of the operation that uses nullable
    variables directly as argument values and inside a OneOf literal"""
    i = sel_open(t)
    head = t[:i]
    root = "Mutation" if head.lstrip().startswith("mutation") else "Query"
    decl = "$pi: Int, $pk: Pick"
    if "(" in head:
        k = head.rindex(")")
        head = head[:k] + ", " + decl + head[k:]
    else:
        head = head.rstrip() + "(" + decl + ") "
    return f"fragment FP on {root} {{ pick(p: $pk) p2: pick(p: {{a: $pi}}) fpi: f(x: $pi) }} " + head + "{ ...FP " + t[i + 1:]


_schema12 = None


def schema12():
    """gqlmini's schema plus a OneOf input type reachable from the roots"""
    global _schema12
    if _schema12 is None:
        from graphql import extend_schema, parse
        _schema12 = extend_schema(gqlmini.schema(), parse("input Pick @oneOf { a: Int b: String } extend type Query { pick(p: Pick): Int } "
                                                          "extend type Mutation { pick(p: Pick): Int }"))
    return _schema12


def frag_cycle(text):
    """a cycle through two or three fragments (F_a -> F_b -> F_a): the fragment definitions are given the missing
    spreads; a document with fewer than two fragments gets two new ones that spread each other"""
    names = re.findall(r"fragment (F\d+) on (\w+) \{", text)
    if len(names) < 2:
        return text + " fragment Ca on A { x ...Cb } fragment Cb on A { o { ...Ca } }"
    ring = names[:3] if len(names) >= 3 and len(text) % 2 else names[:2]
    for k, (n, on) in enumerate(ring):
        nxt, non = ring[(k + 1) % len(ring)]
        spread = f"...{nxt}" if on == non else f"... on {non} {{ ...{nxt} }}"
        text = re.sub(rf"fragment {n} on {on} \{{", f"fragment {n} on {on} {{ {spread} ", text, count=1)
    return text


def mutate_doc(text, rnd):
    ops = [
        frag_cycle, frag_cycle,
        lambda t: re.sub(r"\b(x|y|s|a|b)\b", "nope", t, count=1),                                  # unknown field
        lambda t: re.sub(r"\(req: [^)]*\)", "", t, count=1),                                       # drop a required argument
        lambda t: re.sub(r": (\d+)", r': "\1"', t, count=1),                                       # literal of another kind
        lambda t: re.sub(r"fragment (F\d+) on (\w+) \{", r"fragment \1 on \2 { ...\1 ", t, count=1),  # fragment cycle
        lambda t: re.sub(r"\((\$\w+: [^,)]+)", r"(\1, \1", t, count=1),                            # duplicated variable
        lambda t: re.sub(r"\.\.\. on (A|B|I|U)", "... on Int", t, count=1),                        # wrong type condition
        lambda t: t.replace("{", "@skip(if: true) @skip(if: false) {", 1) if rnd.random() < 0.5 else t.replace("query Q", "query Q @deprecated", 1),
        lambda t: t + " fragment Unused on A { x }",
        lambda t: re.sub(r"\{", "{ ...Missing ", t, count=1),
        lambda t: t.replace("$v", "$undefinedVar", 1),
        lambda t: t + " query Q { __typename }",                                                   # duplicate operation name
        lambda t: re.sub(r"\b(o|on|i|u) \{[^{}]*\}", r"\1", t, count=1),                            # composite without selection
        lambda t: re.sub(r"\b(a|b|s)\b(?! *[:(])", r"\1 { x }", t, count=1),                        # leaf with selection
        share_name, share_name,
        deep_introspection, deep_introspection,
        frag_on_unknown, frag_on_unknown,
        type_system_defs, type_system_defs, oneof_variable, oneof_variable,
    ]
    for _ in range(rnd.choice([1, 1, 2])):
        t2 = rnd.choice(ops)(text)
        text = t2
    return text


def add_descriptions(text):
    text = re.sub(r"\bquery Q\b", '"an operation" query Q', text, count=1)
    text = re.sub(r"\bfragment (F\d+)\b", r'"""\n  a fragment\n""" fragment \1', text)
    text = re.sub(r"\((\$\w+:)", r'("a variable" \1', text, count=1)
    return text


def insert_ignored(text, rnd):
    out = []
    for ch in text:
        out.append(ch)
        if ch in " {}(),:" and rnd.random() < 0.25:
            out.append(rnd.choice([" ", "\n", ",", "\t", "#c\n", "\r\n", "\ufeff"]))
    return "".join(out)


def _chunk(jobs):
    from graphql import parse, validate, print_ast, print_schema, GraphQLError
    from graphql.utilities import strip_ignored_characters, ast_to_dict
    from graphql.validation import specified_rules
    schema = schema12()
    rules = list(specified_rules)
    out = []
    for sd, kind in jobs:
        rnd = random.Random(sd)
        if kind == "random":
            toks, _t = gen_doc.document(rnd, flavor="executable")
            text = gen_doc.join_tokens(toks, rnd)
        else:
            # a quarter of the documents are mutations (some rules only look at mutation / subscription roots)
            op12 = "mutation" if sd % 4 == 1 else "query"
            case = gqlmini.gen_case(sd, op=op12)
            text = gqlmini.render_doc(case, op12)
            if kind == "mutant":
                text = mutate_doc(text, rnd)
            elif rnd.random() < 0.5:
                text = share_name(text)
        try:
            doc = parse(text)
        except GraphQLError:
            out.append({"skipped": "does not parse"})
            continue
        viol = []
        try:
            snap_doc = ast_to_dict(doc, locations=True)
            snap_schema = print_schema(schema)
            key = lambda e: (e.message, tuple((l.line, l.column) for l in (e.locations or [])))     # noqa: E731
            ids, mids = {}, {}

            def eid(e):
                return ids.setdefault(key(e), len(ids) + 1)

            def mid(e):
                return mids.setdefault(e.message, len(mids) + 1)
            full = validate(schema, doc, max_errors=10000)
            all_ids = [eid(e) for e in full]
            alone = [[eid(e) for e in validate(schema, doc, [r], max_errors=10000)] for r in rules]
            subsets = []
            for _ in range(3):
                idx = rnd.sample(range(len(rules)), rnd.randrange(2, len(rules)))
                subsets.append({"rules": [i + 1 for i in idx], "errors": [eid(e) for e in validate(schema, doc, [rules[i] for i in idx], max_errors=10000)]})
            perm = list(range(len(rules)))
            rnd.shuffle(perm)
            subsets.append({"rules": [i + 1 for i in perm], "errors": [eid(e) for e in validate(schema, doc, [rules[i] for i in perm], max_errors=10000)]})
            again = [eid(e) for e in validate(schema, doc, max_errors=10000)]
            msgs = [mid(e) for e in full]
            variants = []
            for vtext in (print_ast(doc), strip_ignored_characters(text), insert_ignored(text, rnd), add_descriptions(text)):
                try:
                    vdoc = parse(vtext)
                except GraphQLError:
                    continue          # e.g. a description added where the mutated text does not allow one
                variants.append([mid(e) for e in validate(schema, vdoc, max_errors=10000)])
            total = len(full)
            limited = []
            # every abort point of a document with few errors (an abort unwinds through whatever rule is reporting)
            for nlim in (range(total + 1) if total <= 8 else sorted({0, 1, 2, 5, max(0, total - 1), total})):
                res = validate(schema, doc, max_errors=nlim)
                aborted = bool(res) and res[-1].message.startswith("Too many validation errors")
                limited.append({"n": nlim, "errors": [eid(e) for e in (res[:-1] if aborted else res)], "aborted": aborted})
            unchanged = ast_to_dict(doc, locations=True) == snap_doc and print_schema(schema) == snap_schema
            # history independence: after the aborted runs the same call still gives the same list, and so does every rule alone
            after = [eid(e) for e in validate(schema, doc, max_errors=10000)]
            if after != all_ids:
                again = after
            else:
                alone_after = [[eid(e) for e in validate(schema, doc, [r], max_errors=10000)] for r in rules]
                if alone_after != alone:
                    again = [0]
            out.append({"all": all_ids, "alone": alone, "subsets": subsets, "again": again, "msgs": msgs, "variants": variants, "limited": limited,
                        "unchanged": unchanged, "_meta": {"seed": sd, "kind": kind, "query": text[:400], "n_errors": total}})
        except Exception as e:  # noqa: BLE001
            viol.append(("validate-raises", f"{type(e).__name__}: {str(e)[:160]}"))
            out.append({"viol": viol, "_meta": {"seed": sd, "kind": kind, "query": text[:400]}})
    return out


def run(tier: str, rd):
    ev = Evidence(PROP, tier)
    vd = Verdicts(PROP)
    n = 1200 if tier == "quick" else 8000
    base = seed() * 1000000 + 1200000
    jobs = [(base + k, ["valid", "mutant", "mutant", "random"][k % 4]) for k in range(n)]
    recs = []
    for lst in pmap(_chunk, jobs, chunk=5):
        recs += lst
    skipped = [r for r in recs if "skipped" in r]
    for r in recs:
        for clause, detail in r.get("viol", []):
            vd.violation(clause, r["_meta"], detail)
    recs = [r for r in recs if "all" in r]
    hits = {}
    for bi in range(0, len(recs), 500):
        batch = recs[bi:bi + 500]
        payload = [{k: v for k, v in r.items() if not k.startswith("_")} for r in batch]
        p = common.write_cases(rd, f"val{bi}.json", payload)
        r = run_tlc(rd, "ValidateV", common.v_cfg(), name=f"ValidateV{bi}", env={"CASES": str(p)}, timeout=3400, heap="16g")
        ev.add_tlc(f"V: {len(batch)} documents: recorded error lists vs ValidateLaws.tla (V1-V4)", r)
        for o in r.json_lines():
            rec = batch[o["viol"] - 1]
            hits[o["clause"]] = hits.get(o["clause"], 0) + 1
            vd.violation(o["clause"], rec["_meta"], {"all": rec["all"], "alone_nonempty": [(i + 1, a) for i, a in enumerate(rec["alone"]) if a][:6],
                                                    "limited": rec["limited"], "variants": rec["variants"], "msgs": rec["msgs"]})
    ev.traces += len(recs)
    for r in recs:
        ev.case(None, nontrivial=r["_meta"]["n_errors"] >= 1, key=r["_meta"]["query"])
    with_err = [r for r in recs if r["_meta"]["n_errors"]]
    if with_err:
        ev.sample(with_err[0]["_meta"])
    ev.extra.update({"documents": len(recs), "unparsable_skipped": len(skipped), "documents_with_errors": len(with_err),
                     "max_errors_in_a_document": max([r["_meta"]["n_errors"] for r in recs] or [0]),
                     "validate_calls": sum(len(r["alone"]) + len(r["subsets"]) + len(r["variants"]) + len(r["limited"]) + 2 for r in recs), "clause_hits": hits})
    ev.rule = "seeded valid / mutated / grammar-random documents over the mini schema; non-trivial = validation reports >= 1 error"
    ev.assumptions = ["errors are identified by (message, locations) for V1/V3/V4 and by message for V2",
                      "V1-V4 are metamorphic laws of the real validate(); TLC evaluates them on the recorded lists (the I-spec ValidateDriver of the design is not built)"]
    rc = vd.finish()
    ev.write(vd)
    return rc


if __name__ == "__main__":
    common.main_wrapper(PROP, run)
