"""C18 - introspection describes the schema truthfully and can rebuild it.

P-spec: Introspect.tla - IntroGraph(S): what the introspection types must present for an abstract schema S;
Project(full, opts): the full-options result minus exactly the attributes and deprecated input values that the
switched-off options omit.
For seeded abstract schemas (rendered as SDL and programmatically):
  (1) the standard introspection query under every one of its 2^7 option combinations validates and executes
      without errors;
  (2,3,5) TLC: result(opts) = Project(result(full), opts) for all 128 combinations, and the user-defined part of
      the full result equals IntroGraph(S) (kinds, fields with args, interfaces, possibleTypes, enum values, input
      fields, parsed defaultValue, isOneOf, specifiedByURL, isRepeatable, root types, schema description);
  (4) __type(name:) equals the corresponding entry of __schema.types for every type;
  (6) build_client_schema(full) prints identically to the original, find_schema_changes is empty and it
      introspects to the same result again.
"""
from __future__ import annotations

import itertools
import random

from . import common, gen_schema as gs
from .common import Evidence, Verdicts, run_tlc, pmap, seed

PROP = "C18"
OPTS = ["descriptions", "specified_by_url", "directive_is_repeatable", "schema_description", "input_value_deprecation",
        "experimental_directive_deprecation", "one_of"]
WIRE_OPT = {"descriptions": "descriptions", "specified_by_url": "specifiedBy", "directive_is_repeatable": "repeatable", "schema_description": "schemaDescription",
            "input_value_deprecation": "inputDeprecation", "experimental_directive_deprecation": "directiveDeprecation", "one_of": "oneOf"}
TEXT_KEYS = {"description", "deprecationReason", "specifiedByURL"}
NULLABLE_LISTS = {"fields", "inputFields", "interfaces", "enumValues", "possibleTypes"}


def canon(v, key=None):
    from graphql.language import parse_const_value
    if v is None:
        if key in TEXT_KEYS:
            return {"p": False, "cp": []}
        if key == "name":
            return ""
        if key == "defaultValue":
            return {"has": False, "v": {"t": "null"}}
        return {"nul": True}
    if isinstance(v, bool):
        return {"b": v} if key == "isOneOf" else v
    if isinstance(v, str):
        if key in TEXT_KEYS:
            return {"p": True, "cp": [ord(c) for c in v]}
        if key == "defaultValue":
            return {"has": True, "v": gs.untyped_value(gs.norm_value(gs.proj_ast_value(parse_const_value(v))))}
        return v
    if isinstance(v, list):
        lst = [canon(x, None) for x in v]
        return {"list": lst} if key in NULLABLE_LISTS else lst
    if isinstance(v, dict):
        return {k: canon(x, k) for k, x in v.items()}
    return v


def _chunk(jobs):
    from graphql import build_schema, parse, validate, execute_sync, print_schema, validate_schema
    from graphql.utilities import get_introspection_query, build_client_schema, find_schema_changes, introspection_from_schema
    out = []
    for sd, route, tier in jobs:
        if isinstance(sd, tuple):
            S = {k: v for k, v in gs.lone_schemas()[sd[1]].items() if not k.startswith("_")}
            sd = 1 + sd[1] * 3
        else:
            S = gs.gen_schema(sd)
        if sd % 3 == 0:
            S = gs.with_redefined_directive(S, random.Random(sd))
        viol = []
        try:
            s = build_schema(gs.to_sdl(S)) if route == "sdl" else gs.to_objects(S)
            if validate_schema(s):
                out.append({"skipped": "invalid"})
                continue
        except Exception as e:  # noqa: BLE001
            out.append({"skipped": f"not constructible {type(e).__name__}"})
            continue
        results = []
        full = None
        combos = list(itertools.product([False, True], repeat=7))
        for bits in combos:
            opts = dict(zip(OPTS, bits))
            try:
                doc = parse(get_introspection_query(**opts))
                errs = validate(s, doc)
                if errs:
                    viol.append(("introspection-query-does-not-validate", {"options": opts, "errors": [e.message for e in errs][:2]}))
                    continue
                res = execute_sync(s, doc)
                if res.errors:
                    viol.append(("introspection-query-executes-with-errors", {"options": opts, "errors": [e.message for e in res.errors][:2]}))
                    continue
            except Exception as e:  # noqa: BLE001
                viol.append(("introspection-raises", {"options": opts, "error": f"{type(e).__name__}: {str(e)[:120]}"}))
                continue
            # the utility that runs the query on the caller's behalf must hand back the same result for the same options
            try:
                via = introspection_from_schema(s, **opts)
                if via != res.data:
                    viol.append(("introspection_from_schema-differs-from-executing-its-query", {"options": opts}))
            except Exception as e:  # noqa: BLE001
                viol.append(("introspection-raises", {"options": opts, "error": f"introspection_from_schema: {type(e).__name__}: {str(e)[:120]}"}))
            c = canon(res.data["__schema"])
            if all(bits):
                full = (res.data, c)
            results.append({"opts": {WIRE_OPT[k]: v for k, v in opts.items()}, "result": c})
        if full is None:
            out.append({"viol": viol, "seed": sd, "route": route})
            continue
        data, cfull = full
        # (4) single-type lookups agree with the full list
        q = get_introspection_query(**dict.fromkeys(OPTS, True))
        frags = q[q.index("fragment FullType"):]
        by_name = {t["name"]: t for t in data["__schema"]["types"]}
        for tname in list(by_name)[:: (3 if tier == "quick" else 1)]:
            try:
                r1 = execute_sync(s, parse('query { __type(name: "%s") { ...FullType } } ' % tname + frags))
                if r1.errors or r1.data["__type"] != by_name[tname]:
                    viol.append(("single-type-lookup-differs", {"type": tname, "errors": [e.message for e in (r1.errors or [])][:2]}))
            except Exception as e:  # noqa: BLE001
                viol.append(("single-type-lookup-raises", {"type": tname, "error": type(e).__name__}))
        try:
            r0 = execute_sync(s, parse('{ __type(name: "NoSuchType") { name } }'))
            if r0.errors or r0.data["__type"] is not None:
                viol.append(("unknown-type-lookup-not-null", None))
        except Exception as e:  # noqa: BLE001
            viol.append(("single-type-lookup-raises", {"type": "NoSuchType", "error": type(e).__name__}))
        # (6) client schema
        try:
            client = build_client_schema(data)
            if print_schema(client) != print_schema(s):
                a, b = print_schema(s), print_schema(client)
                k = next((i for i, (x, y) in enumerate(zip(a, b)) if x != y), min(len(a), len(b)))
                viol.append(("client-schema-prints-differently", {"at": k, "original": a[max(0, k - 60):k + 60], "client": b[max(0, k - 60):k + 60]}))
            ch = find_schema_changes(s, client)
            if ch:
                viol.append(("changes-between-schema-and-client-schema", [c.description for c in ch][:3]))
            again = introspection_from_schema(client)
            if again != data:
                viol.append(("client-schema-introspects-differently", None))
        except Exception as e:  # noqa: BLE001
            viol.append(("build_client_schema-raises", f"{type(e).__name__}: {str(e)[:160]}"))
        out.append({"schema": gs.to_wire(gs.untyped_defaults(gs.normalise(S))), "full": cfull, "results": results, "_viol": viol, "_seed": sd, "_route": route,
                    "_n_types": len(data["__schema"]["types"])})
    return out


def run(tier: str, rd):
    ev = Evidence(PROP, tier)
    vd = Verdicts(PROP)
    n = 24 if tier == "quick" else 240
    base = seed() * 1000000 + 1800000
    jobs = [(base + k, "sdl" if k % 2 == 0 else "programmatic", tier) for k in range(n)]
    jobs += [(("lone", k), "sdl" if k % 2 == 0 else "programmatic", tier) for k in range(len(gs.lone_schemas()))][:: (2 if tier == "quick" else 1)]
    if tier != "quick":
        jobs += [(("lone", k), "sdl" if k % 2 else "programmatic", tier) for k in range(len(gs.lone_schemas()))]
    recs = []
    for lst in pmap(_chunk, jobs, chunk=1):
        recs += lst
    skipped = [r for r in recs if "skipped" in r]
    for r in recs:
        for clause, detail in r.get("viol", r.get("_viol", [])):
            vd.violation(clause, {"seed": r.get("seed", r.get("_seed")), "route": r.get("route", r.get("_route"))}, detail)
    recs = [r for r in recs if "full" in r]
    hits = {}
    for bi in range(0, len(recs), 8):
        batch = recs[bi:bi + 8]
        payload = [{k: v for k, v in r.items() if not k.startswith("_")} for r in batch]
        p = common.write_cases(rd, f"intro{bi}.json", payload)
        r = run_tlc(rd, "IntroV", common.v_cfg(), name=f"IntroV{bi}", env={"CASES": str(p)}, timeout=3400, heap="24g", workers=8)
        ev.add_tlc(f"V: {len(batch)} schemas x 128 option combinations vs Introspect.tla (Project, IntroGraph)", r)
        for o in r.json_lines():
            rec = batch[o["viol"] - 1]
            hits[o["clause"]] = hits.get(o["clause"], 0) + 1
            w = o.get("which", 0)
            vd.violation(o["clause"], {"seed": rec["_seed"], "route": rec["_route"]}, {"options": rec["results"][w - 1]["opts"] if w else None, "types": o.get("types")})
    ev.traces += sum(len(r["results"]) for r in recs)
    for r in recs:
        for res in r["results"]:
            ev.case(None, nontrivial=True, key=f"{r['_seed']}|{sorted(res['opts'].items())}")
    if recs:
        ev.sample({"seed": recs[0]["_seed"], "route": recs[0]["_route"], "types_in_result": recs[0]["_n_types"], "option_combinations": len(recs[0]["results"])})
    ev.extra.update({"schemas": len(recs), "skipped": len(skipped), "option_results_checked": sum(len(r["results"]) for r in recs), "clause_hits": hits})
    ev.rule = "seeded abstract schemas x all 2^7 option combinations of the standard introspection query; distinct = (schema seed, option combination)"
    ev.assumptions = ["built-in scalars, introspection types and specified directives are not compared with IntroGraph (identical for all schemas)",
                      "defaultValue strings are compared after parsing them back into values", "ad-hoc introspection selections are not generated yet"]
    rc = vd.finish()
    ev.write(vd)
    return rc


if __name__ == "__main__":
    common.main_wrapper(PROP, run)
