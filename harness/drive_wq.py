"""Direct driving of the real WorkQueue (+ real IncrementalPublisher) along behaviours of WorkQueue.tla.

A behaviour (printed by TLC from EmitBehaviour) is {cfg, hist, out}: the work graph, the action
history (Pull / TaskSettle t / StreamBatch s / StreamEnd s) and the model's emitted event batches.
The real queue is built from harness Groups / WorkTasks(Computation over gate futures) / fake stream
queues, each model action is applied followed by quiesce(), and
  * the real event batches are compared with the model's (MODEL-DRIFT when different),
  * every real batch is fed through the real IncrementalPublisher; the payload sequence becomes a
    trace for Delivery.tla (verdict clauses D1-D7 and, via the synthetic reference, conservation).
"""
from __future__ import annotations

import asyncio

from .detloop import DetLoop, NoQuiescence
from . import wire


class G:
    def __init__(self, name):
        self.name, self.parent = name, None
        self.path = None
        self.label = name

    def __repr__(self):
        return self.name


class P:
    """minimal Path stand-in for the publisher: as_list()"""

    def __init__(self, lst):
        self.lst = lst

    def as_list(self):
        return list(self.lst)


class S:
    def __init__(self, name, queue):
        self.name, self.queue = name, queue
        self.label = name
        self.path = None

    def __repr__(self):
        return self.name


class GroupValue:
    """stands for ExecutionGroupValue: data, errors, delivery_groups, path (= where the data is rooted: the longest
    path among the delivery groups the execution group belongs to)"""

    def __init__(self, task, groups):
        self.task = task
        self.data = {task: 1}
        self.errors = None
        self.delivery_groups = groups
        paths = [g.path.as_list() if g.path is not None else [] for g in groups]
        self.path = max(paths, key=len) if paths else []


class ItemValue:
    def __init__(self, name, item):
        self.name = name
        self.item = item
        self.errors = None


def replay(beh, with_publisher=True):
    from graphql.execution.incremental.work_queue import Work, WorkQueue, WorkResult, WorkTask
    from graphql.execution.incremental.computation import Computation
    from graphql.execution.incremental.incremental_publisher import IncrementalPublisher
    cfg, hist, want = beh["cfg"], beh["hist"], beh["out"]
    loop = DetLoop()
    groups = {g: G(g) for g in cfg["parent"]}
    for g, p in cfg["parent"].items():
        groups[g].parent = groups[p] if p != "none" else None
    tasks, gates, streams = {}, {}, {}
    # paths: every group sits at the root, except a group produced by a stream item (sits at that item);
    # streams sit at ["<name>"], a stream produced by an item of s1 at ["s1", 0, "sx"]
    item_work = {}   # (stream, batch, idx) -> work record

    def mk(w):
        if not (w["groups"] or w["tasks"] or w["streams"]):
            return None
        return Work([groups[g] for g in w["groups"]], [tasks[t] for t in w["tasks"]], [streams[s] for s in w["streams"]])

    for t in cfg["tgroups"]:
        ok, sync = cfg["tok"][t], cfg["tsync"][t]

        def fn(t=t, ok=ok, sync=sync):
            tg = [groups[g] for g in cfg["tgroups"][t]]
            if sync:
                if ok:
                    return WorkResult(GroupValue(t, tg), mk(cfg["twork"][t]))
                raise RuntimeError("task failed")
            gates[t] = loop.create_future()

            async def aw():
                return await gates[t]
            return aw()
        tasks[t] = WorkTask([groups[g] for g in cfg["tgroups"][t]], Computation(fn))

    class FakeQueue:
        def __init__(self, name, batches, end, peek):
            self.name, self.nb, self.end, self.peek = name, batches, end, peek
            self.gates = [loop.create_future() for _ in batches] + [loop.create_future()]
            self.stopped = False
            self.aborted = 0

        async def batches(self):
            n = len(self.nb)
            for i, items in enumerate(self.nb):
                await self.gates[i]
                if i == n - 1 and self.peek and self.end == "stop":
                    self.stopped = True
                out = []
                for j, w in enumerate(items):
                    has_work = bool(w["groups"] or w["tasks"] or w["streams"])
                    item = {"sx": []} if (has_work and w["streams"]) else ({} if has_work else f"{self.name}.{i + 1}.{j}")
                    out.append(WorkResult(ItemValue(f"{self.name}.{i + 1}.{j}", item), mk(w)))
                yield out
            await self.gates[n]
            if self.end == "fail":
                raise RuntimeError("stream failed")
            self.stopped = True

        def is_stopped(self):
            return self.stopped

        def abort(self, reason=None):
            self.aborted += 1

    for s in cfg["sbatches"]:
        streams[s] = S(s, FakeQueue(s, cfg["sbatches"][s], cfg["send"][s], cfg["speek"][s]))
    # paths
    item_groups = set()
    item_streams = set()
    for s in cfg["sbatches"]:
        for items in cfg["sbatches"][s]:
            for w in items:
                item_groups.update(w["groups"])
                item_streams.update(w["streams"])
    # group paths: groups produced by a stream item sit at that item; g2 (and a g3 nested in g2) sit one level
    # deeper than the other groups, so that a task shared by g1 and g2 exercises the publisher's choice of the
    # best (longest-path, still pending) id and its sub path
    for g in groups.values():
        if g.name in item_groups:
            g.path = P(["s1", 0])
        elif g.name == "g2" or (g.name == "g3" and g.parent is not None and g.parent.name == "g2"):
            g.path = P(["o"])
        else:
            g.path = None
    for s in streams.values():
        s.path = P(["s1", 0, "sx"]) if s.name in item_streams else P([s.name])

    asyncio.events._set_running_loop(loop)
    try:
        wq = WorkQueue(mk(cfg["init"]) or Work())
    finally:
        asyncio.events._set_running_loop(None)
    ev = wq.events()
    got, raw = [], []

    def enc(e):
        n = type(e).__name__

        def nm(xs):
            return [x.name for x in xs]
        if n == "GroupValuesEvent":
            return {"e": "GV", "x": e.group.name, "vals": [v.task for v in e.values], "ng": [], "ns": []}
        if n == "GroupSuccessEvent":
            return {"e": "GS", "x": e.group.name, "vals": [], "ng": nm(e.new_groups), "ns": nm(e.new_streams)}
        if n == "GroupFailureEvent":
            return {"e": "GF", "x": e.group.name, "vals": [], "ng": [], "ns": []}
        if n == "StreamValuesEvent":
            return {"e": "SV", "x": e.stream.name, "vals": sorted({int(v.name.split(".")[1]) for v in e.values}), "ng": nm(e.new_groups), "ns": nm(e.new_streams)}
        if n == "StreamSuccessEvent":
            return {"e": "SS", "x": e.stream.name, "vals": [], "ng": [], "ns": []}
        if n == "StreamFailureEvent":
            return {"e": "SF", "x": e.stream.name, "vals": [], "ng": [], "ns": []}
        return {"e": "END", "x": "", "vals": [], "ng": [], "ns": []}

    async def pull():
        try:
            b = await anext(ev)
            raw.append(b)
            got.append([enc(e) for e in b])
        except StopAsyncIteration:
            got.append("STOP")

    drift = None
    hang = False
    for step in hist:
        a, x = step["a"], step["x"]
        if a == "Pull":
            loop.create_task(pull())
        elif a == "TaskSettle":
            if x not in gates or gates[x].done():
                drift = f"gate {x} not pending"
                break
            if cfg["tok"][x]:
                gates[x].set_result(WorkResult(GroupValue(x, [groups[g] for g in cfg["tgroups"][x]]), mk(cfg["twork"][x])))
            else:
                gates[x].set_exception(RuntimeError("task failed"))
        elif a == "StreamBatch":
            q = streams[x].queue
            idx = next((i for i, g in enumerate(q.gates[:-1]) if not g.done()), None)
            if idx is None:
                drift = f"stream {x} has no pending batch gate"
                break
            q.gates[idx].set_result(None)
        elif a == "StreamEnd":
            q = streams[x].queue
            if q.gates[-1].done():
                drift = f"stream {x} end gate not pending"
                break
            q.gates[-1].set_result(None)
        try:
            loop.quiesce(5000)
        except NoQuiescence:
            hang = True
            break
    trace = None
    if with_publisher and not hang:
        trace = publisher_trace(cfg, wq, raw, groups, streams, IncrementalPublisher)
    for t in loop.pending_tasks():
        t.cancel()
    try:
        loop.quiesce(5000)
    except NoQuiescence:
        pass
    loop.close()
    return got, want, drift, hang, trace


def publisher_trace(cfg, wq, raw_batches, groups, streams, IncrementalPublisher):
    """Feed the real batches through the real publisher; encode the payloads for Delivery.tla."""
    from .increq import enc_payload
    pub = IncrementalPublisher()
    init_data = {s.name: [] for s in streams.values() if s.path.as_list() == [s.name]}
    init_data["o"] = {}
    pending = pub._to_pending_results(wq.initial_groups, wq.initial_streams)
    initial = {"data": init_data, "pending": [p.formatted for p in pending], "hasNext": True}
    payloads = [initial]
    for b in raw_batches:
        payloads.append(pub._handle_batch(b).formatted)
    # synthetic reference: everything delivered
    ref = dict(init_data)
    ref["o"] = {}
    for t in cfg["tgroups"]:
        gs = [groups[g] for g in cfg["tgroups"][t]]
        paths = [g.path.as_list() if g.path is not None else [] for g in gs]
        where = max(paths, key=len)
        if where == []:
            ref[t] = 1
        elif where == ["o"]:
            ref["o"][t] = 1
        # tasks of groups produced by stream items are accounted for in the item below
    for s, st in streams.items():
        q = st.queue
        lst = []
        for i, items in enumerate(q.nb):
            for j, w in enumerate(items):
                has_work = bool(w["groups"] or w["tasks"] or w["streams"])
                if has_work and w["streams"]:
                    item = {"sx": [f"sx.1.{k}" for k in range(len(cfg["sbatches"]["sx"][0]))] if "sx" in cfg["sbatches"] else []}
                elif has_work:
                    item = {t: 1 for t in w["tasks"]}
                else:
                    item = f"{s}.{i + 1}.{j}"
                lst.append(item)
        if st.path.as_list() == [s]:
            ref[s] = lst
    any_fail = (not all(cfg["tok"].values())) or any(v == "fail" for v in cfg["send"].values())
    ended = bool(payloads) and payloads[-1].get("hasNext") is False
    parents = {g: (p if p != "none" else "") for g, p in cfg["parent"].items()}
    for s in streams:
        parents[s] = ""
    return {"initial": enc_payload(initial, True), "subsequent": [enc_payload(p) for p in payloads[1:]],
            "parents": parents, "ref": wire.enc_value(ref), "refnf": {"t": "missing"}, "refclean": not any_fail, "complete": ended, "stalled": False}
