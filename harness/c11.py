"""C11 - AST traversal visits every node once, in order, and edits without mutating.

P-spec: VisitContract.tla - the documented contract of visit() as a recursive definition (RefVisit).
V: real ASTs of all node kinds (kitchen sinks + grammar-generated documents incl. the experimental syntaxes) x
   scripted visitors (per-node decisions among idle / skip / break / remove / replace on enter or leave, at random
   nodes incl. the root, inside lists, on leave). The tree handed to TLC is obtained by reflection over the node
   dataclass fields, children ordered by source position - not through the library's key table - so a field
   missing from the table or listed out of order disagrees with RefVisit. TLC compares the real call log
   (phase, node, key, path, number of ancestors, parent), the outcome and the result tree.
   Python-side: the input tree is unchanged (deep snapshot + identities), an idle visitor gets the identical
   object back, non-editing visitors run in parallel see the call sequence they see alone.
"""
from __future__ import annotations

import dataclasses
import random
from pathlib import Path

from . import common, gen_doc
from .common import Evidence, Verdicts, run_tlc, pmap, seed

PROP = "C11"


def children(node):
    from graphql.language import Node
    out = []
    for f in dataclasses.fields(node):
        if f.name == "loc":
            continue
        v = getattr(node, f.name)
        if isinstance(v, Node):
            out.append((f.name, False, [v], v.loc.start if v.loc else 0))
        elif isinstance(v, tuple) and v and all(isinstance(x, Node) for x in v):
            out.append((f.name, True, list(v), v[0].loc.start if v[0].loc else 0))
    out.sort(key=lambda t: t[3])
    return out


def has_sentinel(node):
    from graphql.language import REMOVE, Node
    for f in dataclasses.fields(node):
        v = getattr(node, f.name)
        if v is REMOVE or v is Ellipsis:
            return True
        if isinstance(v, Node) and has_sentinel(v):
            return True
        if isinstance(v, tuple) and any((x is REMOVE or x is Ellipsis or (isinstance(x, Node) and has_sentinel(x))) for x in v):
            return True
    return False


class Reflect:
    def __init__(self, root):
        self.ids = {}
        self.by_loc = {}
        self.nodes = []
        self.field_order = {}
        self.tree = self.walk(root)

    def walk(self, node):
        nid = len(self.nodes) + 1
        self.nodes.append(node)
        self.ids[id(node)] = nid
        if node.loc is not None:
            self.by_loc[(node.kind, node.loc.start, node.loc.end)] = nid
        fields = []
        for name, many, kids, _pos in children(node):
            fields.append({"name": name, "many": many, "kids": [self.walk(k) for k in kids]})
        self.field_order[nid] = [f["name"] for f in fields]
        return {"id": nid, "kind": node.kind, "fields": fields}

    def id_of(self, node):
        from graphql.language import NameNode
        if id(node) in self.ids:
            return self.ids[id(node)]
        if isinstance(node, NameNode) and node.loc is None and node.value.startswith("REPL"):
            return 900000 + int(node.value[4:])
        from graphql.language import FieldNode
        if isinstance(node, FieldNode) and node.loc is None and node.name is not None and node.name.value.startswith("REPL"):
            return 900000 + int(node.name.value[4:]) - 2       # a replacement field REPL<100k>: alias REPL<100k+1>, name REPL<100k+2>
        if node.loc is not None:
            return self.by_loc.get((node.kind, node.loc.start, node.loc.end), -1)
        return -1

    def shape(self, node):
        nid = self.id_of(node)
        ch = children(node)
        order = self.field_order.get(nid)
        if order is not None:      # keep the document order of the original node (replacements carry no location)
            ch.sort(key=lambda t: order.index(t[0]) if t[0] in order else len(order))
        else:                      # a replacement node: its children in the order of the specification's tree (alias, name)
            ch.sort(key=lambda t: t[0])
        return {"id": nid, "fields": [{"name": n, "kids": [self.shape(k) for k in kids]} for n, _m, kids, _p in ch]}


def spec_shape(t):
    return {"id": t["id"], "fields": [{"name": f["name"], "kids": [spec_shape(k) for k in f["kids"]]} for f in t["fields"]]}


def rep_tree(k, kind):
    """the replacement a scripted visitor returns: a fresh name node, or a fresh field node with an alias and a name below it
    (a node of another kind WITH children: the traversal continues into the replacement's own children)"""
    if kind == "name":
        return {"id": 900000 + k, "kind": "name", "fields": []}
    b = 900000 + 100 * k
    nm = lambda i: {"id": i, "kind": "name", "fields": []}      # noqa: E731
    return {"id": b, "kind": "field", "fields": [{"name": "alias", "many": False, "kids": [nm(b + 1)]}, {"name": "name", "many": False, "kids": [nm(b + 2)]},
                                                 {"name": "arguments", "many": True, "kids": []}, {"name": "directives", "many": True, "kids": []},
                                                 {"name": "selection_set", "many": False, "kids": []}]}


def make_rep(tree):
    from graphql.language import NameNode, FieldNode
    if tree["kind"] == "name":
        return NameNode(value=f"REPL{tree['id'] - 900000}")
    b = tree["id"] - 900000
    return FieldNode(alias=NameNode(value=f"REPL{b + 1}"), name=NameNode(value=f"REPL{b + 2}"), arguments=(), directives=(), selection_set=None)


def make_program(rng, refl, n_points):
    """-> (spec program, {(phase, id): action})"""
    from graphql.language import NameNode
    prog, table = [], {}
    norep = {"id": 0, "kind": "none", "fields": []}
    for k in range(n_points):
        nid = 1 if rng.random() < 0.15 else rng.randrange(1, len(refl.nodes) + 1)
        ph = rng.choice(["enter", "enter", "leave"])
        d = rng.choice(["skip", "break", "remove", "replace"]) if ph == "enter" else rng.choice(["break", "remove", "replace"])
        if (ph, nid) in table:
            continue
        rep = norep
        obj = None
        if d == "replace":
            rep = rep_tree(k + 1, rng.choice(["name", "field"]))
            obj = make_rep(rep)
        prog.append({"ph": ph, "id": nid, "d": d, "rep": rep})
        table[(ph, nid)] = (d, obj)
    return prog, table


_TI_SCHEMA = None


def run_visit(root, refl, table, record=True, via=0):
    """via: 0 plain visit(); 1 the documented aliases instead of the enum members (False = SKIP, True = BREAK, Ellipsis = REMOVE);
    2 the scripted visitor wrapped in TypeInfoVisitor (which must hand every decision through); 3 both"""
    from graphql.language import visit, Visitor, BREAK, SKIP, REMOVE, Node
    log = []
    if via & 1:
        SKIP, BREAK, REMOVE = False, True, Ellipsis     # noqa: N806

    class Scripted(Visitor):
        def decide(self, ph, node, key, parent, path, ancestors):
            nid = refl.id_of(node)
            if isinstance(parent, tuple):
                pid = (refl.id_of(ancestors[-1]) if ancestors else 0) + 100000
            else:
                pid = refl.id_of(parent) if parent is not None else 0
            log.append({"ph": ph, "id": nid, "kind": node.kind, "key": "" if key is None else (f"#{key}" if isinstance(key, int) else key),
                        "path": [f"#{p}" if isinstance(p, int) else p for p in path], "anc": len(ancestors), "parent": pid})
            d = table.get((ph, nid))
            if d is None:
                return None
            return {"skip": SKIP, "break": BREAK, "remove": REMOVE}.get(d[0], d[1])

        def enter(self, node, key, parent, path, ancestors):
            return self.decide("enter", node, key, parent, path, ancestors)

        def leave(self, node, key, parent, path, ancestors):
            return self.decide("leave", node, key, parent, path, ancestors)
    raised = ""
    result = None
    visitor = Scripted()
    if via & 4:
        # the same script spread over kind-specific and generic handlers: for some kinds only enter_<kind> is specific
        # (leave stays generic), for others only leave_<kind>, for others both - every node is still entered and left
        kinds = sorted({n.kind for n in refl.nodes})
        krng = random.Random(len(refl.nodes) * 31 + len(table))
        ns = {}
        for k in kinds:
            r = krng.random()
            if r < 0.3:
                ns["enter_" + k] = lambda self, *a: self.decide("enter", *a)
            elif r < 0.6:
                ns["leave_" + k] = lambda self, *a: self.decide("leave", *a)
            elif r < 0.75:
                ns["enter_" + k] = lambda self, *a: self.decide("enter", *a)
                ns["leave_" + k] = lambda self, *a: self.decide("leave", *a)
        visitor = type("ScriptedMixed", (Scripted,), ns)()
    if via & 2:
        global _TI_SCHEMA
        from graphql import build_schema
        from graphql.utilities import TypeInfo, TypeInfoVisitor
        if _TI_SCHEMA is None:
            _TI_SCHEMA = build_schema("type Query { a: Int, b(x: Int): Query, c: [Query] }")
        visitor = TypeInfoVisitor(TypeInfo(_TI_SCHEMA), visitor)
    try:
        result = visit(root, visitor)
    except Exception as e:  # noqa: BLE001
        raised = type(e).__name__
    return log, result, raised


def snapshot(root):
    from graphql.utilities import ast_to_dict
    return ast_to_dict(root, locations=True)


def _chunk(jobs):
    from graphql import parse
    from graphql.language import REMOVE, Node, ParallelVisitor, visit
    out = []
    for text, opts, sd in jobs:
        rng = random.Random(sd)
        root = parse(text, **opts)
        if sd % 3 == 0:
            # visit() accepts any node as the root: an operation, a field, a type, a value, ...
            inner = Reflect(root).nodes
            cands = [n for n in inner if children(n)]
            if cands:
                root = rng.choice(cands)
        refl = Reflect(root)
        snap = snapshot(root)
        idents = [id(n) for n in refl.nodes]
        for trial in range(4):
            npts = rng.choice([0, 1, 1, 2, 2, 3])
            prog, table = make_program(rng, refl, npts)
            via = rng.choice([0, 0, 1, 2, 3, 4, 4, 5, 6])
            log, result, raised = run_visit(root, refl, table, via=via)
            broke = any(table.get((e["ph"], e["id"]), ("",))[0] == "break" for e in log[-1:])
            if raised:
                outcome, shape = "raised", {"id": 0, "fields": []}
            elif result is root:
                outcome, shape = "same", refl.shape(root)
            elif result is REMOVE or result is None or result is Ellipsis:
                outcome, shape = "removed", refl.shape(root)
            elif isinstance(result, Node):
                outcome, shape = "edited", None
                try:
                    if has_sentinel(result):
                        raise ValueError("REMOVE sentinel left inside the result tree")
                    shape = refl.shape(result)
                except Exception as e:  # noqa: BLE001  (e.g. the REMOVE sentinel left inside the rebuilt tree)
                    outcome, shape = "malformed:" + type(e).__name__, {"id": 0, "fields": []}
            else:
                outcome, shape = "other:" + type(result).__name__, {"id": 0, "fields": []}
            # after a BREAK the result is undocumented: only the log is compared
            if log and table.get((log[-1]["ph"], log[-1]["id"]), ("",))[0] == "break":
                outcome = "broke"
                shape = refl.shape(root)
            mutated = snapshot(root) != snap or [id(n) for n in refl.nodes] != idents
            out.append({"tree": refl.tree, "prog": prog, "log": log, "outcome": outcome, "result": shape, "raised": raised, "mutated": mutated,
                        "_meta": {"seed": sd, "text": text[:300], "program": [{k: v for k, v in p.items() if k != "rep"} for p in prog], "n_nodes": len(refl.nodes)}})
        # parallel: non-editing programs see alone what they see together
        for _par in range(8):
          progs = []
          for _ in range(rng.choice([2, 3, 4])):
              p, t = make_program(rng, refl, rng.choice([0, 1, 2]))
              t = {k: v for k, v in t.items() if v[0] in ("skip", "break")}
              progs.append(t)
          alone = [run_visit(root, refl, t)[0] for t in progs]
          from graphql.language import Visitor, BREAK, SKIP
          logs = [[] for _ in progs]

          def mk(i, t):
              class V(Visitor):
                  def enter(self, node, key, parent, path, ancestors):
                      nid = refl.id_of(node)
                      logs[i].append(("enter", nid))
                      d = t.get(("enter", nid))
                      return None if d is None else (SKIP if d[0] == "skip" else BREAK)

                  def leave(self, node, key, parent, path, ancestors):
                      nid = refl.id_of(node)
                      logs[i].append(("leave", nid))
                      d = t.get(("leave", nid))
                      return None if d is None else BREAK
              return V()
          par_raised = ""
          try:
              visit(root, ParallelVisitor([mk(i, t) for i, t in enumerate(progs)]))
          except Exception as e:  # noqa: BLE001
              par_raised = type(e).__name__
          for i, t in enumerate(progs):
              want = [(e["ph"], e["id"]) for e in alone[i]]
              if par_raised:
                  out.append({"parallel_violation": "parallel-visit-raised", "_meta": {"seed": sd, "text": text[:300], "exc": par_raised}})
                  break
              if logs[i] != want:
                  k = next((j for j, (a, b) in enumerate(zip(logs[i], want)) if a != b), min(len(logs[i]), len(want)))
                  out.append({"parallel_violation": "parallel-log-differs-from-alone", "_meta": {"seed": sd, "text": text[:300], "visitor": i,
                              "programs": [sorted((k2[0], k2[1], v[0]) for k2, v in tt.items()) for tt in progs], "at": k,
                              "together": logs[i][k:k + 2], "alone": want[k:k + 2]}})
    return out


class FakeLoc:
    """stands for a Location (visit() never looks inside it): gives programmatic nodes a stable identity"""

    def __init__(self, n):
        self.start = self.end = n


def build_real(t):
    """tree of MCVisit.tla (real kinds and field names) -> real node objects"""
    from graphql.language import ast
    cls = {"document": ast.DocumentNode, "operation_definition": ast.OperationDefinitionNode, "selection_set": ast.SelectionSetNode,
           "field": ast.FieldNode, "name": ast.NameNode}[t["kind"]]
    kw = {"loc": FakeLoc(t["id"])}
    for f in t["fields"]:
        kids = [build_real(k) for k in f["kids"]]
        kw[f["name"]] = tuple(kids) if f["many"] else (kids[0] if kids else None)
    if t["kind"] == "name":
        kw["value"] = f"n{t['id']}"
    if t["kind"] == "operation_definition":
        kw["operation"] = ast.OperationType.QUERY
    return cls(**kw)


def _g_chunk(recs):
    """replay of MCVisit.tla's (tree, program, RefVisit) triples on the real visit()"""
    from graphql.language import REMOVE, Node, NameNode
    out = []
    for rec in recs:
        root = build_real(rec["tree"])
        refl = Reflect(root)
        table = {}
        for p in rec["prog"]:
            obj = make_rep(p["rep"]) if p["d"] == "replace" else None
            table[(p["ph"], p["id"])] = (p["d"], obj)
        log, result, raised = run_visit(root, refl, table)
        want = rec["want"]
        problem = None
        if raised:
            problem = ("visit-raised", raised)
        elif log != want["log"]:
            k = next((i for i, (a, b) in enumerate(zip(log, want["log"])) if a != b), min(len(log), len(want["log"])))
            problem = ("call-log-differs", {"at": k, "real": log[k:k + 1], "spec": want["log"][k:k + 1]})
        else:
            if want["outcome"] == "broke":
                pass
            elif want["outcome"] == "same" and result is not root:
                problem = ("outcome-differs", {"spec": "same", "real": type(result).__name__})
            elif want["outcome"] == "removed" and not (result is REMOVE or result is None):
                problem = ("outcome-differs", {"spec": "removed", "real": type(result).__name__})
            elif want["outcome"] == "edited":
                if not isinstance(result, Node) or result is root:
                    problem = ("outcome-differs", {"spec": "edited", "real": "same" if result is root else type(result).__name__})
                elif has_sentinel(result) or refl.shape(result) != want["result"]:
                    problem = ("result-tree-differs", {"spec": want["result"], "real": None if has_sentinel(result) else refl.shape(result)})
        out.append((problem, rec["prog"], rec["tree"]["id"], len(rec["prog"])))
    return out


def run(tier: str, rd):
    ev = Evidence(PROP, tier)
    vd = Verdicts(PROP)
    # M + G: the loop design refines the contract on every small (tree, program) pair; each pair is replayed on the real code
    mp = 1 if tier == "quick" else 2
    cfgm = f"INIT Init\nNEXT Next\nCONSTANT MaxPoints = {mp}\nCONSTANT GuardRoot = TRUE\nCONSTANT RemoveIsNone = TRUE\nINVARIANT Refines\nINVARIANT Emit\nCHECK_DEADLOCK FALSE\n"
    rm = run_tlc(rd, "MCVisit", cfgm, timeout=3000, heap="12g", allow_violation=True)
    ev.add_tlc(f"M+G: VisitLoop.tla = RefVisit on every (tree, program) pair, programs with <= {mp} decision points; pairs emitted for replay", rm)
    if rm.invariant_violations:
        vd.violation("model-VisitLoop-does-not-refine-contract", {"max_points": mp}, rm.tail(40), {"clause": "model-VisitLoop"})
    grecs = list(rm.json_lines())
    n_g = 0
    for lst in pmap(_g_chunk, grecs, chunk=500):
        for problem, prog, _tid, npts in lst:
            n_g += 1
            if problem:
                vd.violation("G-" + problem[0], {"program": [{k: v for k, v in p.items() if k != "rep"} for p in prog]}, problem[1],
                             {"clause": problem[0], "root_point": any(p["id"] == 1 for p in prog)})
    ev.traces += n_g
    for g in grecs:
        ev.case(None, nontrivial=len(g["prog"]) >= 1, key="G" + common.digest([g["tree"], g["prog"]]))
    rng = random.Random(seed())
    jobs = []
    for n in ("kitchen_sink.graphql", "schema_kitchen_sink.graphql"):
        text = (Path(__file__).parent / "corpus" / n).read_text()
        for k in range(6 if tier == "quick" else 60):
            jobs.append((text, {}, seed() * 7919 + k))
    nd = 250 if tier == "quick" else 2500
    for k in range(nd):
        fa, dd = rng.random() < 0.3, rng.random() < 0.3
        toks, _t = gen_doc.document(rng, frag_args=fa, dirs_on_dirs=dd)
        jobs.append((gen_doc.join_tokens(toks, rng), {"experimental_fragment_arguments": fa, "experimental_directives_on_directive_definitions": dd},
                     seed() * 104729 + k))
    recs = []
    for lst in pmap(_chunk, jobs, chunk=10):
        recs += lst
    for r in [r for r in recs if "parallel_violation" in r]:
        vd.violation(r["parallel_violation"], r["_meta"], None)
    recs = [r for r in recs if "tree" in r]
    kinds = set()
    hits = {}
    for bi in range(0, len(recs), 3000):
        batch = recs[bi:bi + 3000]
        payload = [{k: v for k, v in r.items() if not k.startswith("_")} for r in batch]
        p = common.write_cases(rd, f"visit{bi}.json", payload)
        r = run_tlc(rd, "VisitV", common.v_cfg(), name=f"VisitV{bi}", env={"CASES": str(p)}, timeout=3400, heap="20g")
        ev.add_tlc(f"V: {len(batch)} recorded visit() runs vs RefVisit (VisitContract.tla)", r)
        for o in r.json_lines():
            rec = batch[o["viol"] - 1]
            hits[o["clause"]] = hits.get(o["clause"], 0) + 1
            at = o.get("at", 0)
            root_point = any(p["id"] == 1 for p in rec["_meta"]["program"])
            decisions = sorted({(p["ph"], p["d"]) for p in rec["_meta"]["program"]})
            vd.violation(o["clause"], rec["_meta"], {"raised": rec["raised"], "outcome": rec["outcome"], "spec_outcome": o.get("specOutcome"), "first_difference_at": at,
                                                     "real_entry": rec["log"][at - 1] if 0 < at <= len(rec["log"]) else None, "spec_entry": o.get("specEntry")},
                         {"clause": o["clause"], "raised": rec["raised"], "root_point": root_point})
    ev.traces += len(recs)

    def walk_kinds(t):
        kinds.add(t["kind"])
        for f in t["fields"]:
            for k in f["kids"]:
                walk_kinds(k)
    for r in recs[::4]:
        walk_kinds(r["tree"])
    for r in recs:
        ev.case(None, nontrivial=len(r["prog"]) >= 1, key=common.digest([r["_meta"]["text"], r["_meta"]["program"]]))
    if recs:
        ev.sample({"text": recs[1]["_meta"]["text"][:200], "program": recs[1]["_meta"]["program"], "log_len": len(recs[1]["log"]), "outcome": recs[1]["outcome"]})
    ev.extra.update({"model_pairs_replayed": n_g, "documents": len(jobs), "visit_runs": len(recs), "node_kinds_covered": sorted(kinds), "n_node_kinds": len(kinds),
                     "outcomes": {o: sum(1 for r in recs if r["outcome"] == o) for o in {r["outcome"] for r in recs}}, "clause_hits": hits})
    ev.rule = ("real ASTs (kitchen sinks + seeded full-grammar documents) x seeded visitor programs with 0..3 decision points; "
               "non-trivial = program with >= 1 decision point")
    ev.assumptions = ["after BREAK only the call log is compared (the returned value is documented nowhere)",
                      "node identity across rebuilt nodes is (kind, loc)"]
    rc = vd.finish()
    ev.write(vd)
    return rc


if __name__ == "__main__":
    common.main_wrapper(PROP, run)
