"""Grammar-directed generator for GraphQL documents (full grammar: executable definitions,
type-system definitions and extensions, descriptions, the experimental fragment-argument and
directive-on-directive syntaxes).

Every generator function returns (tokens, node): `tokens` is the list of lexical tokens (text) and
`node` the abstract tree the grammar assigns to them, as plain dicts in the shape of
graphql.utilities.ast_to_dict (independent of the parser: it is built while generating).
String tokens are rendered from their intended *value* by this module's own escaper/raw-block
writer, never by the library's printer.
"""
from __future__ import annotations

import random

NAMES = ["a", "b", "id", "name", "x1", "_", "_a", "Foo", "Bar", "on_", "type_", "query", "fragment", "input",
         "true1", "nullx", "extend", "schema", "implements", "repeatable", "directive", "A", "B9", "longer_name_with_underscores"]
TYPE_NAMES = ["Int", "String", "Foo", "Bar", "T", "U_", "Query", "ID"]
DIR_LOCATIONS = ["QUERY", "MUTATION", "SUBSCRIPTION", "FIELD", "FRAGMENT_DEFINITION", "FRAGMENT_SPREAD", "INLINE_FRAGMENT",
                 "VARIABLE_DEFINITION", "SCHEMA", "SCALAR", "OBJECT", "FIELD_DEFINITION", "ARGUMENT_DEFINITION", "INTERFACE",
                 "UNION", "ENUM", "ENUM_VALUE", "INPUT_OBJECT", "INPUT_FIELD_DEFINITION", "DIRECTIVE_DEFINITION"]

# characters that matter for strings (see DESIGN C08): terminators of all kinds, quotes, backslash, blanks
ADVERSARIAL = ['"', "\\", "\n", "\r", " ", "\t", "a", "b", "/", "\x0b", "\x0c", "\x1c", "\x1d", "\x1e", "\x85", "\u2028",
               "\u2029", "\x00", "\x1f", "\x7f", "\x9f", "é", "\U0001f600", "#", ",", "{", "}", '"""', "\ufeff", "u", "n",
               # the edges of the code point classes the lexer and the printer distinguish
               "\ud7ff", "\ue000", "\ue001", "\ufffd", "\uffff", "\U00010000", "\U0010ffff", "\x80", "\xa0", "\x1f", "\x20", "\x7e"]


def name(rng, pool=NAMES):
    v = rng.choice(pool)
    return [v], {"kind": "name", "value": v}


def name_not(rng, banned):
    while True:
        v = rng.choice(NAMES)
        if v not in banned:
            return [v], {"kind": "name", "value": v}


# ---------------------------------------------------------------------------------------------
# strings

def rand_string_value(rng, maxlen=8):
    n = rng.choice([0, 1, 1, 2, 3, 4, maxlen])
    s = "".join(rng.choice(ADVERSARIAL) if rng.random() < 0.8 else chr(rng.choice([rng.randrange(0x20, 0x7f), rng.randrange(0xa0, 0xd800), rng.randrange(0xe000, 0x110000)])) for _ in range(n))
    return s


def quote_string(rng, v: str) -> str:
    """A quoted StringValue token denoting v (own escaper; random choice among equivalent escape forms)."""
    out = ['"']
    for ch in v:
        cp = ord(ch)
        forms = []
        if ch == '"':
            forms = ['\\"']
        elif ch == "\\":
            forms = ["\\\\"]
        elif ch == "\n":
            forms = ["\\n", "\\u000A", "\\u{a}"]
        elif ch == "\r":
            forms = ["\\r", "\\u000d"]
        elif cp < 0x20 or cp == 0x7f:
            forms = ["\\u%04X" % cp, "\\u{%x}" % cp, ch]
            if ch == "\t":
                forms.append("\\t")
            if ch == "\b":
                forms.append("\\b")
            if ch == "\f":
                forms.append("\\f")
        elif cp >= 0x10000:
            hi, lo = 0xD800 + ((cp - 0x10000) >> 10), 0xDC00 + ((cp - 0x10000) & 0x3FF)
            forms = [ch, "\\u{%X}" % cp, "\\u%04X\\u%04x" % (hi, lo)]
        elif ch == "/":
            forms = ["/", "\\/"]
        else:
            forms = [ch, ch, ch, "\\u%04x" % cp, "\\u{%X}" % cp]
        out.append(rng.choice(forms))
    out.append('"')
    return "".join(out)


def spec_block_lines(raw: str):
    import re
    return re.split(r"\r\n|\n|\r", raw)


def block_value(raw: str) -> str:
    """BlockStringValue of the specification, for raw text between the triple quotes (after \\\"\"\" unescape).
    Harness-side transcription used only to label generated block tokens with their value; the same
    algorithm lives in Lexical.tla, and C08/C09 validate a sample of labels with TLC."""
    lines = spec_block_lines(raw)

    def indent(l):
        n = 0
        for c in l:
            if c in " \t":
                n += 1
            else:
                break
        return n
    blank = lambda l: indent(l) == len(l)  # noqa: E731
    cands = [indent(l) for l in lines[1:] if not blank(l)]
    common = min(cands) if cands else 0
    ded = [lines[0]] + [l[common:] for l in lines[1:]]
    while ded and blank(ded[0]):
        ded.pop(0)
    while ded and blank(ded[-1]):
        ded.pop()
    return "\n".join(ded)


def block_token(rng):
    """A random block string token and the value it denotes."""
    n = rng.choice([0, 1, 2, 3, 5, 9])
    parts = []
    for _ in range(n):
        c = rng.choice(ADVERSARIAL + ["\n", "\n", " ", " ", "  ", "a", "\n  "])
        parts.append(c)
    raw = "".join(parts)
    # make it a legal raw body: escape every triple quote, and make sure the body neither ends in a quote
    # that would merge with the closing delimiter nor contains lone quotes forming a delimiter
    src_raw = raw.replace('"""', '\\"""')
    while src_raw.endswith('"') or '"""' in src_raw.replace('\\"""', ""):
        src_raw = src_raw.replace('\\"""', "\0").replace('""', '" "').replace("\0", '\\"""')
        if src_raw.endswith('"'):
            src_raw += " "
    if src_raw.endswith("\\"):
        src_raw += " "
    raw_unesc = src_raw.replace('\\"""', '"""')
    return '"""' + src_raw + '"""', block_value(raw_unesc)


def string_value(rng, allow_block=True):
    if allow_block and rng.random() < 0.4:
        tok, v = block_token(rng)
        return [tok], {"kind": "string_value", "value": v, "block": True}
    v = rand_string_value(rng)
    return [quote_string(rng, v)], {"kind": "string_value", "value": v, "block": False}


def description(rng, p=0.35):
    if rng.random() < p:
        return string_value(rng)
    return [], None


# ---------------------------------------------------------------------------------------------
# values and types

INTS = ["0", "-0", "1", "-1", "123", "2147483648", "-9007199254740993"]
FLOATS = ["0.0", "-0.0", "1.5", "1e3", "1E-3", "1.5e+10", "-2.0E5", "0e0"]
ENUMS = ["RED", "on_", "nullx", "true1", "Foo", "_"]


def value(rng, const: bool, depth=0):
    r = rng.random()
    if not const and r < 0.15:
        t, n = name(rng)
        return ["$"] + t, {"kind": "variable", "name": n}
    k = rng.choice(["int", "float", "string", "bool", "null", "enum", "list", "object"] if depth < 3 else ["int", "string", "bool", "null", "enum"])
    if k == "int":
        v = rng.choice(INTS)
        return [v], {"kind": "int_value", "value": v}
    if k == "float":
        v = rng.choice(FLOATS)
        return [v], {"kind": "float_value", "value": v}
    if k == "string":
        return string_value(rng)
    if k == "bool":
        v = rng.random() < 0.5
        return ["true" if v else "false"], {"kind": "boolean_value", "value": v}
    if k == "null":
        return ["null"], {"kind": "null_value"}
    if k == "enum":
        v = rng.choice(ENUMS)
        return [v], {"kind": "enum_value", "value": v}
    if k == "list":
        toks, vals = ["["], []
        for _ in range(rng.randrange(0, 3)):
            t, n = value(rng, const, depth + 1)
            toks += t
            vals.append(n)
        return toks + ["]"], {"kind": "list_value", "values": vals}
    toks, fields = ["{"], []
    for _ in range(rng.randrange(0, 3)):
        tn, nn = name(rng)
        tv, nv = value(rng, const, depth + 1)
        toks += tn + [":"] + tv
        fields.append({"kind": "object_field", "name": nn, "value": nv})
    return toks + ["}"], {"kind": "object_value", "fields": fields}


def named_type(rng):
    v = rng.choice(TYPE_NAMES)
    return [v], {"kind": "named_type", "name": {"kind": "name", "value": v}}


def type_ref(rng, depth=0):
    r = rng.random()
    if r < 0.3 and depth < 3:
        t, n = type_ref(rng, depth + 1)
        toks, node = ["["] + t + ["]"], {"kind": "list_type", "type": n}
    else:
        toks, node = named_type(rng)
    if rng.random() < 0.3:
        return toks + ["!"], {"kind": "non_null_type", "type": node}
    return toks, node


def arguments(rng, const: bool, p=0.4, kind="argument"):
    if rng.random() >= p:
        return [], None
    toks, args = ["("], []
    for _ in range(rng.randrange(1, 4)):
        tn, nn = name(rng)
        tv, nv = value(rng, const)
        toks += tn + [":"] + tv
        args.append({"kind": kind, "name": nn, "value": nv})
    return toks + [")"], args


def directives(rng, const: bool, p=0.3):
    if rng.random() >= p:
        return [], None
    toks, ds = [], []
    for _ in range(rng.randrange(1, 3)):
        tn, nn = name(rng)
        ta, na = arguments(rng, const)
        toks += ["@"] + tn + ta
        ds.append({"kind": "directive", "name": nn, "arguments": na})
    return toks, ds


# ---------------------------------------------------------------------------------------------
# executable definitions

def selection_set(rng, depth, frag_args):
    toks, sels = ["{"], []
    for _ in range(rng.randrange(1, 4)):
        t, n = selection(rng, depth, frag_args)
        toks += t
        sels.append(n)
    return toks + ["}"], {"kind": "selection_set", "selections": sels}


def selection(rng, depth, frag_args):
    r = rng.random()
    if r < 0.65 or depth >= 4:
        toks = []
        alias = None
        if rng.random() < 0.25:
            ta, alias = name(rng)
            toks += ta + [":"]
        tn, nn = name(rng)
        ta, na = arguments(rng, False)
        td, nd = directives(rng, False)
        toks += tn + ta + td
        ss = None
        if rng.random() < 0.35 and depth < 4:
            ts, ss = selection_set(rng, depth + 1, frag_args)
            toks += ts
        return toks, {"kind": "field", "directives": nd, "name": nn, "alias": alias, "arguments": na, "selection_set": ss}
    if r < 0.8:
        tn, nn = name_not(rng, {"on"})
        toks = ["..."] + tn
        na = None
        if frag_args:
            ta, na = arguments(rng, False, kind="fragment_argument")
            toks += ta
        td, nd = directives(rng, False)
        node = {"kind": "fragment_spread", "directives": nd, "name": nn, "arguments": na}
        return toks + td, node
    toks, tc = ["..."], None
    if rng.random() < 0.6:
        tt, tc = named_type(rng)
        toks += ["on"] + tt
    td, nd = directives(rng, False)
    ts, ss = selection_set(rng, depth + 1, frag_args)
    return toks + td + ts, {"kind": "inline_fragment", "directives": nd, "selection_set": ss, "type_condition": tc}


def variable_definitions(rng, p=0.4):
    if rng.random() >= p:
        return [], None
    toks, defs = ["("], []
    for _ in range(rng.randrange(1, 3)):
        tdesc, ndesc = description(rng, 0.2)
        tn, nn = name(rng)
        tt, nt = type_ref(rng)
        toks += tdesc + ["$"] + tn + [":"] + tt
        dv = None
        if rng.random() < 0.4:
            tv, dv = value(rng, True)
            toks += ["="] + tv
        td, nd = directives(rng, True, 0.2)
        toks += td
        defs.append({"kind": "variable_definition", "description": ndesc, "variable": {"kind": "variable", "name": nn},
                     "type": nt, "default_value": dv, "directives": nd})
    return toks + [")"], defs


def operation_definition(rng, frag_args, shorthand_ok=True):
    if shorthand_ok and rng.random() < 0.2:
        ts, ss = selection_set(rng, 0, frag_args)
        return ts, {"kind": "operation_definition", "selection_set": ss, "description": None, "name": None,
                    "variable_definitions": None, "directives": None, "operation": "query"}
    tdesc, ndesc = description(rng, 0.2)
    op = rng.choice(["query", "mutation", "subscription"])
    toks = tdesc + [op]
    nn = None
    if rng.random() < 0.7:
        tn, nn = name(rng)
        toks += tn
    tv, nv = variable_definitions(rng)
    td, nd = directives(rng, False)
    ts, ss = selection_set(rng, 0, frag_args)
    return toks + tv + td + ts, {"kind": "operation_definition", "selection_set": ss, "description": ndesc, "name": nn,
                                 "variable_definitions": nv, "directives": nd, "operation": op}


def fragment_definition(rng, frag_args):
    tdesc, ndesc = description(rng, 0.2)
    tn, nn = name_not(rng, {"on"})
    toks = tdesc + ["fragment"] + tn
    nv = None
    if frag_args:
        tv, nv = variable_definitions(rng)
        toks += tv
    tt, nt = named_type(rng)
    td, nd = directives(rng, False)
    ts, ss = selection_set(rng, 0, frag_args)
    return toks + ["on"] + tt + td + ts, {"kind": "fragment_definition", "selection_set": ss, "description": ndesc, "name": nn,
                                          "variable_definitions": nv, "directives": nd, "type_condition": nt}


# ---------------------------------------------------------------------------------------------
# type system

def input_value_def(rng):
    tdesc, ndesc = description(rng, 0.25)
    tn, nn = name(rng)
    tt, nt = type_ref(rng)
    toks = tdesc + tn + [":"] + tt
    dv = None
    if rng.random() < 0.4:
        tv, dv = value(rng, True)
        toks += ["="] + tv
    td, nd = directives(rng, True, 0.2)
    return toks + td, {"kind": "input_value_definition", "name": nn, "type": nt, "description": ndesc, "default_value": dv,
                       "directives": nd}


def argument_defs(rng, p=0.3):
    if rng.random() >= p:
        return [], None
    toks, ds = ["("], []
    for _ in range(rng.randrange(1, 3)):
        t, n = input_value_def(rng)
        toks += t
        ds.append(n)
    return toks + [")"], ds


def field_definition(rng):
    tdesc, ndesc = description(rng, 0.25)
    tn, nn = name(rng)
    ta, na = argument_defs(rng)
    tt, nt = type_ref(rng)
    td, nd = directives(rng, True, 0.2)
    return tdesc + tn + ta + [":"] + tt + td, {"kind": "field_definition", "name": nn, "type": nt, "description": ndesc,
                                                "arguments": na, "directives": nd}


def braces(rng, gen, p=0.8, lo=1, hi=4):
    """optional { item+ } block"""
    if rng.random() >= p:
        return [], None
    toks, items = ["{"], []
    for _ in range(rng.randrange(lo, hi)):
        t, n = gen(rng)
        toks += t
        items.append(n)
    return toks + ["}"], items


def implements(rng, p=0.35):
    if rng.random() >= p:
        return [], None
    toks, ns = ["implements"], []
    if rng.random() < 0.3:
        toks.append("&")
    for k in range(rng.randrange(1, 3)):
        if k:
            toks.append("&")
        t, n = named_type(rng)
        toks += t
        ns.append(n)
    return toks, ns


def union_members(rng, p=0.8):
    if rng.random() >= p:
        return [], None
    toks, ns = ["="], []
    if rng.random() < 0.3:
        toks.append("|")
    for k in range(rng.randrange(1, 4)):
        if k:
            toks.append("|")
        t, n = named_type(rng)
        toks += t
        ns.append(n)
    return toks, ns


def enum_value_def(rng):
    tdesc, ndesc = description(rng, 0.25)
    tn, nn = name_not(rng, {"true", "false", "null"})
    td, nd = directives(rng, True, 0.2)
    return tdesc + tn + td, {"kind": "enum_value_definition", "name": nn, "description": ndesc, "directives": nd}


def op_type_def(rng):
    op = rng.choice(["query", "mutation", "subscription"])
    tt, nt = named_type(rng)
    return [op, ":"] + tt, {"kind": "operation_type_definition", "operation": op, "type": nt}


def type_system_definition(rng, dirs_on_dirs):
    k = rng.choice(["schema", "scalar", "type", "interface", "union", "enum", "input", "directive"])
    tdesc, ndesc = description(rng)
    if k == "schema":
        td, nd = directives(rng, True)
        tb, nb = braces(rng, op_type_def, p=1.0)
        return tdesc + ["schema"] + td + tb, {"kind": "schema_definition", "description": ndesc, "directives": nd, "operation_types": nb}
    if k == "directive":
        tn, nn = name(rng)
        ta, na = argument_defs(rng, 0.5)
        toks = tdesc + ["directive", "@"] + tn + ta
        nd = None
        if dirs_on_dirs:
            td, nd = directives(rng, True)
            toks += td
        rep = rng.random() < 0.3
        if rep:
            toks.append("repeatable")
        toks.append("on")
        if rng.random() < 0.3:
            toks.append("|")
        locs = []
        for i in range(rng.randrange(1, 4)):
            if i:
                toks.append("|")
            l = rng.choice(DIR_LOCATIONS)
            toks.append(l)
            locs.append({"kind": "name", "value": l})
        return toks, {"kind": "directive_definition", "name": nn, "locations": locs, "description": ndesc, "arguments": na,
                      "directives": nd, "repeatable": rep}
    tn, nn = name(rng)
    toks = tdesc + [k] + tn
    if k == "scalar":
        td, nd = directives(rng, True)
        return toks + td, {"kind": "scalar_type_definition", "name": nn, "description": ndesc, "directives": nd}
    if k in ("type", "interface"):
        ti, ni = implements(rng)
        td, nd = directives(rng, True)
        tb, nb = braces(rng, field_definition)
        kind = "object_type_definition" if k == "type" else "interface_type_definition"
        return toks + ti + td + tb, {"kind": kind, "name": nn, "description": ndesc, "directives": nd, "interfaces": ni, "fields": nb}
    if k == "union":
        td, nd = directives(rng, True)
        tm, nm = union_members(rng)
        return toks + td + tm, {"kind": "union_type_definition", "name": nn, "description": ndesc, "directives": nd, "types": nm}
    if k == "enum":
        td, nd = directives(rng, True)
        tb, nb = braces(rng, enum_value_def)
        return toks + td + tb, {"kind": "enum_type_definition", "name": nn, "description": ndesc, "directives": nd, "values": nb}
    td, nd = directives(rng, True)
    tb, nb = braces(rng, input_value_def)
    return toks + td + tb, {"kind": "input_object_type_definition", "name": nn, "description": ndesc, "directives": nd, "fields": nb}


def type_system_extension(rng, dirs_on_dirs):
    """Extensions must add something: directives, or a non-empty body."""
    kinds = ["schema", "scalar", "type", "interface", "union", "enum", "input"] + (["directive"] if dirs_on_dirs else [])
    k = rng.choice(kinds)
    if k == "schema":
        td, nd = directives(rng, True, 0.5)
        tb, nb = braces(rng, op_type_def, p=1.0 if nd is None else 0.5)
        return ["extend", "schema"] + td + tb, {"kind": "schema_extension", "directives": nd, "operation_types": nb}
    if k == "directive":
        tn, nn = name(rng)
        td, nd = directives(rng, True, 1.0)
        return ["extend", "directive", "@"] + tn + td, {"kind": "directive_extension", "name": nn, "directives": nd}
    tn, nn = name(rng)
    toks = ["extend", k] + tn
    if k == "scalar":
        td, nd = directives(rng, True, 1.0)
        return toks + td, {"kind": "scalar_type_extension", "name": nn, "directives": nd}
    if k in ("type", "interface"):
        ti, ni = implements(rng)
        td, nd = directives(rng, True)
        need = ni is None and nd is None
        tb, nb = braces(rng, field_definition, p=1.0 if need else 0.5)
        kind = "object_type_extension" if k == "type" else "interface_type_extension"
        return toks + ti + td + tb, {"kind": kind, "name": nn, "directives": nd, "interfaces": ni, "fields": nb}
    td, nd = directives(rng, True)
    need = nd is None
    if k == "union":
        tm, nm = union_members(rng, p=1.0 if need else 0.5)
        return toks + td + tm, {"kind": "union_type_extension", "name": nn, "directives": nd, "types": nm}
    if k == "enum":
        tb, nb = braces(rng, enum_value_def, p=1.0 if need else 0.5)
        return toks + td + tb, {"kind": "enum_type_extension", "name": nn, "directives": nd, "values": nb}
    tb, nb = braces(rng, input_value_def, p=1.0 if need else 0.5)
    return toks + td + tb, {"kind": "input_object_type_extension", "name": nn, "directives": nd, "fields": nb}


def document(rng, flavor=None, frag_args=False, dirs_on_dirs=False, ndefs=None):
    """flavor: executable | sdl | mixed"""
    flavor = flavor or rng.choice(["executable", "sdl", "mixed"])
    toks, defs = [], []
    for _ in range(ndefs or rng.randrange(1, 4)):
        if flavor == "executable":
            k = rng.choice(["op", "op", "frag"])
        elif flavor == "sdl":
            k = rng.choice(["def", "def", "ext"])
        else:
            k = rng.choice(["op", "frag", "def", "ext"])
        if k == "op":
            # the shorthand form is ambiguous after a definition whose optional body was omitted
            t, n = operation_definition(rng, frag_args, not defs or defs[-1]["kind"] in ("operation_definition", "fragment_definition"))
        elif k == "frag":
            t, n = fragment_definition(rng, frag_args)
        elif k == "def":
            t, n = type_system_definition(rng, dirs_on_dirs)
        else:
            t, n = type_system_extension(rng, dirs_on_dirs)
        toks += t
        defs.append(n)
    return toks, {"kind": "document", "definitions": defs}


# ---------------------------------------------------------------------------------------------
# layout

IGNORED = [" ", "  ", "\t", "\n", "\r", "\r\n", ",", "\ufeff", "#c\n", "# é \U0001f600\r", "\n\n", " , "]


def is_punct(tok: str) -> bool:
    return tok in ("!", "$", "&", "(", ")", "...", ":", "=", "@", "[", "]", "{", "|", "}")


def join_tokens(tokens, rng=None, minimal=False) -> str:
    """Join tokens with legal ignored material. minimal: only the separators the grammar requires."""
    out = []
    prev = None
    for t in tokens:
        need = prev is not None and not is_punct(prev) and (not is_punct(t) or t == "...")
        # a block/quoted string directly followed by a quote would merge; two strings adjacent need separation
        if prev is not None and prev.endswith('"') and t.startswith('"'):
            need = True
        if rng is None or minimal:
            sep = " " if need else ""
        else:
            sep = rng.choice(IGNORED) if (need or rng.random() < 0.5) else ""
            if need and sep == "":
                sep = " "
            if rng.random() < 0.1:
                sep += rng.choice(IGNORED)
        out.append(sep)
        out.append(t)
        prev = t
    if rng is not None and not minimal and rng.random() < 0.3:
        out.append(rng.choice(IGNORED))
    return "".join(out)
