"""C08 - printing a parsed document and parsing it again gives the same AST.

Strings (decided by the specification's lexer, spec/Lexical.tla via StringV.tla):
  * every raw block-string body over the block alphabet {LF CR SP TAB " \\ a FF NEL LS VT FS} up to the length bound, as
    source text: the value the real parser produces must be the value Lexical.tla assigns; print -> parse
    preserves it character for character and printing is a fixed point;
  * every value over the block and quoted alphabets built programmatically (StringValueNode, block chosen by
    the library's own is_printable_as_block_string, and block=False): TLC lexes the printed literal and checks
    that it denotes the value; is_printable_as_block_string(v) must imply Representable(v).
Trees: grammar-generated documents over the full grammar (incl. the experimental syntaxes): the parsed AST
  equals the generator's expected tree, print -> parse is the identity, print is a fixed point, the same for
  trees built programmatically from node classes, and TLC checks that the string tokens of every printed
  document carry exactly the tree's string values in order.
"""
from __future__ import annotations

import itertools
import random

from . import common, gen_doc, lexbind
from .common import Evidence, Verdicts, run_tlc, pmap, seed

PROP = "C08"
BLOCK_ALPHA = ['"', "\\", "\n", "\r", " ", "\t", "a", "\x0c", "\x85", " ", "\x0b", "\x1c"]
QUOTED_ALPHA = ['"', "\\", "/", "b", "u", "\n", "\r", "\x00", "\x1f", "\x7f", "\x9f", " ", "a", "\U0001f600", "{", "}", "\t"]
EOFC = [1114112]
OPT = {"variable_definitions", "directives", "arguments", "interfaces", "fields", "values", "types", "operation_types"}


def norm(x):
    if isinstance(x, dict):
        return {k: (None if (k in OPT and (v is None or len(v) == 0)) else norm(v)) for k, v in x.items()}
    if isinstance(x, (list, tuple)):
        return [norm(v) for v in x]
    return x


def tree_strings(t, out):
    """string values of an expected tree in document (token) order"""
    if isinstance(t, dict):
        if t.get("kind") == "string_value":
            out.append(t["value"])
            return
        order = field_order(t)
        for k in order:
            tree_strings(t.get(k), out)
    elif isinstance(t, list):
        for x in t:
            tree_strings(x, out)


def field_order(t):
    k = t.get("kind")
    # source order of the children that can contain strings
    if k in ("operation_definition", "fragment_definition"):
        return ["description", "name", "variable_definitions", "type_condition", "directives", "selection_set"]
    if k == "variable_definition":
        return ["description", "variable", "type", "default_value", "directives"]
    if k == "field":
        return ["alias", "name", "arguments", "directives", "selection_set"]
    if k in ("fragment_spread",):
        return ["name", "arguments", "directives"]
    if k == "inline_fragment":
        return ["type_condition", "directives", "selection_set"]
    if k in ("input_value_definition",):
        return ["description", "name", "type", "default_value", "directives"]
    if k == "field_definition":
        return ["description", "name", "arguments", "type", "directives"]
    if k == "directive_definition":
        return ["description", "name", "arguments", "directives", "locations"]
    if k == "schema_definition":
        return ["description", "directives", "operation_types"]
    if k in ("object_type_definition", "interface_type_definition", "object_type_extension", "interface_type_extension"):
        return ["description", "name", "interfaces", "directives", "fields"]
    if k in ("union_type_definition", "union_type_extension"):
        return ["description", "name", "directives", "types"]
    if k in ("enum_type_definition", "enum_type_extension"):
        return ["description", "name", "directives", "values"]
    if k in ("input_object_type_definition", "input_object_type_extension"):
        return ["description", "name", "directives", "fields"]
    return [x for x in t if x != "kind"]


_classes = None


def build_node(d):
    """expected tree (dict) -> real node objects, constructed programmatically"""
    global _classes
    from graphql.language import ast
    import inspect
    if _classes is None:
        _classes = {}
        for n, c in inspect.getmembers(ast, inspect.isclass):
            if issubclass(c, ast.Node) and c.kind != "ast" and not n.startswith("Const"):
                _classes.setdefault(c.kind, c)
    if isinstance(d, list):
        return tuple(build_node(x) for x in d)
    if not isinstance(d, dict):
        return d
    cls = _classes[d["kind"]]
    kw = {}
    for k, v in d.items():
        if k == "kind":
            continue
        if k == "operation":
            kw[k] = ast.OperationType(v)
        else:
            kw[k] = build_node(v)
    return cls(**kw)


def _doc_chunk(seeds):
    from graphql import parse, print_ast
    from graphql.utilities import ast_to_dict
    from graphql import GraphQLError
    out = []
    for sd in seeds:
        rng = random.Random(sd)
        fa, dd = rng.random() < 0.3, rng.random() < 0.3
        toks, tree = gen_doc.document(rng, frag_args=fa, dirs_on_dirs=dd)
        text = gen_doc.join_tokens(toks, rng)
        opts = {"experimental_fragment_arguments": fa, "experimental_directives_on_directive_definitions": dd}
        v = []
        rec = None
        try:
            doc = parse(text, no_location=True, **opts)
            if norm(ast_to_dict(doc)) != norm(tree):
                v.append(("parsed-tree-differs-from-grammar", text, None))
            p1 = print_ast(doc)
            try:
                d2 = parse(p1, no_location=True, **opts)
                if d2 != doc:
                    v.append(("reparse-differs", text, {"printed": p1}))
                p2 = print_ast(d2)
                if p2 != p1:
                    v.append(("print-not-a-fixed-point", text, {"first": p1, "second": p2}))
            except GraphQLError as e:
                v.append(("printed-text-does-not-parse", text, {"printed": p1, "error": str(e)[:150]}))
            strings = []
            tree_strings(tree, strings)
            rec = {"kind": "doc", "printed": lexbind.cps(p1), "strings": [lexbind.cps(s) for s in strings], "src": [], "parsed": [], "value": [],
                   "block": False, "printable": False}
            # programmatic route: same tree built from node classes
            try:
                built = build_node(tree)
                p3 = print_ast(built)
                d3 = parse(p3, no_location=True, **opts)
                if norm(ast_to_dict(d3)) != norm(tree):
                    v.append(("programmatic-tree-roundtrip-differs", text, {"printed": p3}))
            except GraphQLError as e:
                v.append(("programmatic-print-does-not-parse", text, {"error": str(e)[:150]}))
        except GraphQLError as e:
            v.append(("generated-document-rejected", text, str(e)[:150]))
        out.append((rec, v, sd))
    return out


# every kind of definition, with and without each optional part that ends it: adjacent definitions of a mixed document must
# not run into each other in the printed text (F34: the shorthand query after a definition without body)
DEFINITIONS = [
    "{ a }", "query { a }", "query Q { a }", "query ($v: Int) { a }", "query @d { a }", "mutation { a }", "subscription S { a }",
    "fragment F on T { a }", "schema { query: Q }", "schema @d { query: Q }", "extend schema @d", "extend schema { mutation: M }",
    "extend schema @d { mutation: M }", "scalar S", "scalar S @d", "extend scalar S @d", "type T", "type T implements I", "type T @d",
    "type T @d(a: { b: 1 })", "type T { a: Int }", "extend type T @d", "extend type T implements I", "extend type T { a: Int }",
    "interface I", "interface I implements J", "interface I @d", "interface I { a: Int }", "extend interface I @d",
    "extend interface I implements J", "extend interface I { a: Int }", "union U", "union U = A", "union U @d", "union U @d = A | B",
    "extend union U @d", "extend union U = A", "enum E", "enum E @d", "enum E { A }", "extend enum E @d", "extend enum E { A }",
    "input X", "input X @d", "input X { a: Int }", "input X { a: In = { b: 1 } }", "extend input X @d", "extend input X { a: Int }",
    "directive @d on FIELD", "directive @d(a: In = { b: 1 }) on FIELD | QUERY", "directive @d repeatable on FIELD",
    '"d" type T', '"""d""" query { a }', '"d" scalar S',
]


def _pair_chunk(pairs):
    from graphql import parse, print_ast, GraphQLError
    from graphql.utilities import ast_to_dict
    v = []
    n = 0
    for parts in pairs:
        text = " ".join(parts)
        try:
            singles = [parse(t, no_location=True).definitions[0] for t in parts]
            doc = parse(text, no_location=True)
        except GraphQLError:
            continue
        if list(doc.definitions) != singles:
            continue        # the source text itself is read differently (not the printer's doing)
        n += 1
        p1 = print_ast(doc)
        try:
            d2 = parse(p1, no_location=True)
        except GraphQLError as e:
            v.append(("printed-text-does-not-parse", text, {"printed": p1, "error": str(e)[:150]}))
            continue
        if d2 != doc:
            v.append(("reparse-differs", text, {"printed": p1}))
        elif print_ast(d2) != p1:
            v.append(("print-not-a-fixed-point", text, {"first": p1, "second": print_ast(d2)}))
        # programmatic route: the same definitions assembled into a document node
        from graphql.language import DocumentNode
        p3 = print_ast(DocumentNode(definitions=tuple(singles)))
        if p3 != p1:
            v.append(("programmatic-tree-roundtrip-differs", text, {"printed": p3, "parsed_print": p1}))
    return [(n, v)]


def _string_chunk(items):
    """items: ("raw"|"bval"|"qval", text)"""
    from graphql.language import parse_value, print_ast, StringValueNode
    from graphql.language.block_string import is_printable_as_block_string
    from graphql import GraphQLError
    recs, v = [], []
    blank = {"printed": [], "strings": [], "src": [], "parsed": [], "value": [], "block": False, "printable": False}
    for kind, text in items:
        if kind == "raw":
            src = '"""' + text.replace('"""', '\\"""') + '"""'
            try:
                node = parse_value(src, no_location=True)
                parsed = lexbind.cps(node.value) if isinstance(node, StringValueNode) else EOFC
            except GraphQLError:
                node, parsed = None, EOFC
            except Exception as e:  # noqa: BLE001
                node, parsed = None, EOFC
                v.append(("parse_value-raises", src, type(e).__name__))
            recs.append({**blank, "kind": "src", "src": lexbind.cps(src), "parsed": parsed})
            if node is not None and isinstance(node, StringValueNode):
                try:
                    p1 = print_ast(node)
                    n2 = parse_value(p1, no_location=True)
                    if n2 != node:
                        v.append(("string-roundtrip-differs", src, {"printed": p1, "value": node.value, "reparsed": getattr(n2, "value", None)}))
                    elif print_ast(n2) != p1:
                        v.append(("print-not-a-fixed-point", src, {"printed": p1}))
                except GraphQLError as e:
                    v.append(("printed-string-does-not-parse", src, str(e)[:120]))
        else:
            val = text
            for block in ([False] if kind == "qval" else [False, True]):
                printable = is_printable_as_block_string(val)
                if block and not printable:
                    continue    # a programmatic block node whose value no block string denotes is outside the statement
                node = StringValueNode(value=val, block=block)
                try:
                    p1 = print_ast(node)
                except Exception as e:  # noqa: BLE001
                    v.append(("print-raises", val, type(e).__name__))
                    continue
                recs.append({**blank, "kind": "print", "value": lexbind.cps(val), "printed": lexbind.cps(p1), "block": block, "printable": printable})
                try:
                    n2 = parse_value(p1, no_location=True)
                    if not isinstance(n2, StringValueNode) or n2.value != val:
                        v.append(("programmatic-string-roundtrip-differs", val, {"printed": p1, "block": block, "reparsed": getattr(n2, "value", None)}))
                    elif print_ast(n2) != p1:
                        v.append(("print-not-a-fixed-point", val, {"printed": p1}))
                except GraphQLError as e:
                    v.append(("printed-string-does-not-parse", val, {"printed": p1, "error": str(e)[:100]}))
    return recs, v


def run(tier: str, rd):
    ev = Evidence(PROP, tier)
    vd = Verdicts(PROP)
    nb, nq = (4, 3) if tier == "quick" else (5, 4)
    items = []
    for k in range(nb + 1):
        for tup in itertools.product(BLOCK_ALPHA, repeat=k):
            s = "".join(tup)
            items.append(("raw", s))
            items.append(("bval", s))
    for k in range(nq + 1):
        for tup in itertools.product(QUOTED_ALPHA, repeat=k):
            items.append(("qval", "".join(tup)))
    # lengths around the printer's thresholds (70 characters for the single-line form of a block string, 80 for line wrapping):
    # every one-symbol prefix and suffix around a filler, with and without an interior line terminator
    edge = [""] + BLOCK_ALPHA
    for total in ((69, 70, 71, 72, 81) if tier == "quick" else (68, 69, 70, 71, 72, 73, 79, 80, 81, 120)):
        for pre in edge:
            for suf in edge:
                for mid in ("", "\n"):
                    fill = total - len(pre) - len(suf) - len(mid)
                    sv = pre + "a" * (fill // 2) + mid + "a" * (fill - fill // 2) + suf
                    items.append(("raw", sv))
                    items.append(("bval", sv))
    # the edges of every code point class the lexer / printer distinguish (control characters, DEL, C1, the surrogate gap,
    # the BMP / supplementary boundary, the last code point), alone and between ordinary characters
    EDGES = [0x00, 0x08, 0x09, 0x0a, 0x0d, 0x1f, 0x20, 0x21, 0x22, 0x5c, 0x7e, 0x7f, 0x80, 0x9f, 0xa0, 0xd7ff, 0xe000, 0xe001, 0xfeff, 0xfffd, 0xfffe, 0xffff,
             0x10000, 0x10ffff]
    for cp in EDGES:
        for form in (chr(cp), "a" + chr(cp), chr(cp) + "a", "a" + chr(cp) + "b", chr(cp) * 2):
            items.append(("qval", form))
            items.append(("bval", form))
            if cp not in (0x22, 0x5c):
                items.append(("raw", form))
    rng = random.Random(seed())
    for _ in range(2000 if tier == "quick" else 20000):   # class-uniformity sample: arbitrary Unicode scalar values
        s = gen_doc.rand_string_value(rng, 10)
        items.append((rng.choice(["bval", "qval", "raw"]), s))
    recs = []
    for r, v in pmap(_string_chunk, items, chunk=3000):
        recs += r
        for clause, case, detail in v:
            vd.violation(clause, {"text": case, "code_points": lexbind.cps(case)[:60]}, detail)
    n_docs = 1500 if tier == "quick" else 15000
    base = seed() * 1000000 + 800000
    docrecs = []
    for lst in pmap(_doc_chunk, list(range(base, base + n_docs)), chunk=100):
        for rec, v, sd in lst:
            if rec is not None:
                docrecs.append(rec)
            for clause, case, detail in v:
                vd.violation(clause, {"seed": sd, "text": case[:500]}, detail)
    pairs = [(a, b) for a in DEFINITIONS for b in DEFINITIONS]
    if tier != "quick":
        pairs += [(a, b, c) for a in DEFINITIONS[::2] for b in DEFINITIONS[:12] for c in DEFINITIONS[1::3]]
    n_pairs = 0
    for lst in pmap(_pair_chunk, pairs, chunk=400):
        for n, v in lst:
            n_pairs += n
            for clause, case, detail in v:
                vd.violation(clause, {"text": case}, detail)
    ev.extra["definition_sequences"] = n_pairs
    allrecs = recs + docrecs
    hits = {}
    for bi in range(0, len(allrecs), 60000):
        batch = allrecs[bi:bi + 60000]
        p = common.write_cases(rd, f"strings{bi}.json", batch)
        r = run_tlc(rd, "StringV", common.v_cfg(), name=f"StringV{bi}", env={"CASES": str(p)}, timeout=3400, heap="20g")
        ev.add_tlc(f"V: {len(batch)} string/document records vs Lexical.tla (StringV.tla)", r)
        for o in r.json_lines():
            c = batch[o["viol"] - 1]
            hits[o["clause"]] = hits.get(o["clause"], 0) + 1
            shown = {"kind": c["kind"], "value": lexbind.from_cps(c["value"]) if c["kind"] == "print" else None,
                     "source": lexbind.from_cps(c["src"]) if c["kind"] == "src" else None,
                     "printed": lexbind.from_cps(c["printed"])[:300], "block": c["block"]}
            vd.violation(o["clause"], shown, None)
    ev.traces += len(allrecs)
    for c in recs:
        ev.case(None, nontrivial=len(c["src"] or c["value"]) >= 1, key=c["kind"] + str(c["src"] or c["value"]) + str(c["block"]))
    for c in docrecs:
        ev.case(None, nontrivial=len(c["strings"]) >= 1, key="doc" + common.digest(c["printed"]))
    ev.sample({"string_record": {k: v for k, v in recs[len(recs) // 2].items() if v not in ([], False)}})
    if docrecs:
        ev.sample({"printed_document": lexbind.from_cps(docrecs[0]["printed"])[:400], "strings": [lexbind.from_cps(s) for s in docrecs[0]["strings"]][:5]})
    ev.extra.update({"string_items": len(items), "string_records": len(recs), "documents": len(docrecs), "clause_hits": hits,
                     "block_alphabet_len": nb, "quoted_alphabet_len": nq})
    ev.rule = (f"every raw block body and programmatic value over the 12-symbol block alphabet up to length {nb}, every value over the 14-symbol quoted "
               f"alphabet up to length {nq} (exhaustive), a seeded sample of arbitrary Unicode values, and seeded full-grammar documents; "
               "non-trivial = non-empty string / document with >= 1 string value")
    ev.exhaustive = True
    ev.assumptions = ["a programmatic StringValueNode(block=True) whose value is not printable as a block string is outside the statement",
                      "layout of print_ast is checked only through the round-trip and fixed-point laws"]
    rc = vd.finish()
    ev.write(vd)
    return rc


if __name__ == "__main__":
    common.main_wrapper(PROP, run)
