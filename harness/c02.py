"""C02 - execution computes exactly what the specification's algorithm computes.

P-spec: Execute.tla (CoerceVariableValues, CollectFields, ExecuteSelectionSet, CoerceArgumentValues,
CompleteValue, error propagation) over the abstract GraphQL domain.
V: seeded abstract cases (documents with aliases x fragments x type conditions x @skip/@include x
   variables x arguments with defaults x abstract types x nested lists x non-null placement; data
   graphs with null / raising / ill-typed outcomes) are rendered to real objects, executed with
   execute_sync - twice, and again after other requests on the same schema and document objects - and
   the recorded response and resolver calls are evaluated by TLC against Execute.tla.
"""
from __future__ import annotations

import random

from . import common, gqlmini
from .common import Evidence, Verdicts, run_tlc, pmap, seed

PROP = "C02"


def run_case(case, doc_cache=None, noloc=False):
    from graphql import parse, execute_sync
    text = gqlmini.render_doc(case)
    doc = parse(text, no_location=noloc) if doc_cache is None else doc_cache.setdefault((text, noloc), parse(text, no_location=noloc))
    calls = []
    res = execute_sync(gqlmini.schema(), doc, gqlmini.to_py(case["root"]), variable_values=gqlmini.render_vars(case),
                       field_resolver=gqlmini.make_resolver(calls), type_resolver=gqlmini.type_resolver)
    return text, doc, res, calls


def _chunk(seeds):
    from graphql import execute_sync
    out = []
    docs = {}
    prev = None
    for sd in seeds:
        case = gqlmini.gen_case(sd)
        try:
            from graphql import parse, validate
            text0 = gqlmini.render_doc(case)
            # a third of the documents carry no locations (parse(no_location=True)): structurally equal nodes of
            # different documents then compare equal, which is what any cache keyed by nodes sees
            noloc = sd % 3 == 0
            d0 = docs.setdefault((text0, noloc), parse(text0, no_location=noloc))
            if validate(gqlmini.schema(), d0):
                out.append({"invalid": True})      # the statement quantifies over documents that pass validation
                continue
            text, doc, res, calls = run_case(case, docs, noloc)
        except Exception as e:  # noqa: BLE001
            out.append({"error": f"{type(e).__name__}: {e}", "seed": sd, "text": gqlmini.render_doc(case)})
            continue
        rec = dict(case)
        rec["response"] = gqlmini.enc_response(res)
        rec["calls"] = calls
        rec["conforming"] = False
        rec["_meta"] = {"seed": sd, "query": text, "variables": gqlmini.render_vars(case), "no_location": noloc}
        # clause 4: same request again, and after another request on the same schema/document objects
        hist = []
        calls2 = []
        res2 = execute_sync(gqlmini.schema(), doc, gqlmini.to_py(case["root"]), variable_values=gqlmini.render_vars(case),
                            field_resolver=gqlmini.make_resolver(calls2), type_resolver=gqlmini.type_resolver)
        if res2.formatted != res.formatted or calls2 != calls:
            hist.append("re-execution differs")
        if prev is not None:
            pcase, pdoc = prev
            execute_sync(gqlmini.schema(), pdoc, gqlmini.to_py(pcase["root"]), variable_values=gqlmini.render_vars(pcase),
                         field_resolver=gqlmini.make_resolver([]), type_resolver=gqlmini.type_resolver)
            calls3 = []
            res3 = execute_sync(gqlmini.schema(), doc, gqlmini.to_py(case["root"]), variable_values=gqlmini.render_vars(case),
                                field_resolver=gqlmini.make_resolver(calls3), type_resolver=gqlmini.type_resolver)
            if res3.formatted != res.formatted or calls3 != calls:
                hist.append("execution after another request differs")
        rec["_hist"] = hist
        prev = (case, doc)
        out.append(rec)
    return out


def run(tier: str, rd):
    ev = Evidence(PROP, tier)
    vd = Verdicts(PROP)
    n = 4000 if tier == "quick" else 40000
    base = seed() * 1000000
    recs = []
    for lst in pmap(_chunk, list(range(base, base + n)), chunk=250):
        recs += lst
    errs = [r for r in recs if "error" in r]
    for e in errs[:5]:
        vd.violation("execute_sync-raises", {"seed": e["seed"], "query": e["text"]}, e["error"])
    recs = [r for r in recs if "error" not in r]
    n_invalid = sum(1 for r in recs if r.get("invalid"))
    recs = [r for r in recs if not r.get("invalid")]
    for r in recs:
        for hmsg in r["_hist"]:
            vd.violation("history-dependence", r["_meta"], hmsg)
    batches = [recs[i:i + 4000] for i in range(0, len(recs), 4000)]      # 10000 records (110 MB of JSON) made TLC thrash in 16 GB
    hits = {}
    for bi, batch in enumerate(batches):
        payload = [{k: v for k, v in r.items() if not k.startswith("_")} for r in batch]
        p = common.write_cases(rd, f"exec{bi}.json", payload)
        r = run_tlc(rd, "ExecuteV", common.v_cfg(), name=f"ExecuteV{bi}", env={"CASES": str(p)}, timeout=1500, heap="16g")
        ev.add_tlc(f"V: {len(batch)} recorded executions vs Execute.tla", r)
        for o in r.json_lines():
            rec = batch[o["viol"] - 1]
            hits[o["clause"]] = hits.get(o["clause"], 0) + 1
            if o["clause"].startswith("drift"):
                vd.note_drift(o["clause"], rec["_meta"])
            else:
                vd.violation(o["clause"], rec["_meta"], {"impl": rec["response"], "spec": o.get("spec")})
    ev.traces += len(recs)
    with_err = 0
    for r in recs:
        ne = len(r["response"]["errors"])
        with_err += ne > 0
        ev.case(None, nontrivial=len(r["calls"]) >= 3, key=common.digest([r["_meta"]["query"], r["_meta"]["variables"], r["root"]]))
    if recs:
        ev.sample({"query": recs[0]["_meta"]["query"], "variables": recs[0]["_meta"]["variables"], "response": recs[0]["response"]})
    ev.extra.update({"generated": n, "rejected_by_validation": n_invalid, "executions": len(recs), "with_errors": with_err, "request_errors": sum(1 for r in recs if r["response"]["requestError"]),
                     "clause_hits": hits, "resolver_calls_compared": sum(len(r["calls"]) for r in recs)})
    ev.rule = ("seeded abstract cases over the mini schema (objects, interface, union, lists, non-null, arguments with defaults, variables, "
               "skip/include, named and inline fragments); each executed three times on shared schema/document objects; non-trivial = >= 3 resolver calls")
    ev.assumptions = ["custom scalars, middleware and custom executor classes are out of scope", "data graph served by synchronous resolvers"]
    rc = vd.finish()
    ev.write(vd)
    return rc


if __name__ == "__main__":
    common.main_wrapper(PROP, run)
