"""C07 - a subscription maps source events to responses one-to-one and in order.

M: Subscribe.tla (pull-driven pipeline of map_async_iterable over the source) model checked for one-to-one
   order, no loss, ending with the source, failure after all earlier responses, source closed once.
V: seeded subscription operations (one root field; nested selections, fragments, arguments, variables) x
   event sequences of length 0..4 with arbitrary payload shapes (incl. ones causing field errors) x creation
   failures (raising / non-iterable subscribe resolver) x a source that ends or raises x gated emission and
   gated per-event resolvers; every interleaving of source emission, resolver completion and consumer pulls is
   executed on the deterministic loop (re-execution within a budget). TLC (SubscribeV.tla) evaluates S1-S6,
   each response being compared with Execute.tla applied to that event.
"""
from __future__ import annotations

import asyncio
import random
import warnings

from . import common, gqlmini
from .c03 import hh
from .detloop import DetLoop, NoQuiescence
from .common import Evidence, Verdicts, run_tlc, pmap, seed

warnings.simplefilter("ignore", RuntimeWarning)
PROP = "C07"


class SRun:
    def __init__(self, case, sd, opts):
        from graphql import parse
        from graphql.execution import subscribe
        self.loop = DetLoop()
        self.gates = {}
        self.counts = {}
        self.case, self.sd, self.opts = case, sd, opts
        self.pulls = []
        self.single = None
        self.stream = None
        self.pull_task = None
        self.hang = False
        self.src_started = self.src_closed = 0
        self.raised = None
        run = self
        # an event may be exactly None: every root field then resolves to null (the wire event is the all-null object)
        events = [None if k in opts.get("none_events", ()) else gqlmini.to_py(e) for k, e in enumerate(case["events"])]

        class Source:
            def __init__(self):
                self.i = 0

            def __aiter__(self):
                return self

            async def __anext__(self):
                run.src_started = 1
                if opts["gate_source"]:
                    await run.gate(f"src#{self.i}")[1]
                if self.i >= len(events):
                    if opts["source_fails"]:
                        raise gqlmini.Boom("source failed")
                    raise StopAsyncIteration
                self.i += 1
                return events[self.i - 1]

            async def aclose(self):
                run.src_closed += 1
                if opts.get("aclose_raises"):
                    raise gqlmini.Boom("closing the source failed")

        def sub_resolver(root, info, **args):
            def produce():
                if opts["creation"] == "raise":
                    raise gqlmini.Boom("cannot create source")
                if opts["creation"] == "noniter":
                    return 42
                return Source()
            if opts["gate_subscribe"]:
                async def later():
                    await run.gate("subscribe")[1]
                    return produce()
                return later()
            return produce()

        calls = []
        doc = parse(gqlmini.render_doc(case, "subscription"))
        asyncio.events._set_running_loop(self.loop)
        try:
            # a root value given to subscribe() is not the root of the per-event executions: each event is
            r = subscribe(gqlmini.schema_with_stream(), doc, gqlmini.to_py(opts["root_value"]) if opts.get("root_value") else None, variable_values=gqlmini.render_vars(case),
                          field_resolver=gqlmini.make_resolver(calls, self.wrap), type_resolver=gqlmini.make_type_resolver(self.wrap),
                          subscribe_field_resolver=sub_resolver)
        except Exception as e:  # noqa: BLE001  (subscribe() itself must not raise: reported as a violation by the caller)
            self.raised = e
            return
        finally:
            asyncio.events._set_running_loop(None)
        self.init_task = self.loop.create_task(self._init(r))
        self._q()

    async def _init(self, r):
        try:
            if asyncio.iscoroutine(r) or asyncio.isfuture(r):
                r = await r
            if hasattr(r, "__anext__"):
                self.stream = r
            else:
                self.single = r
        except Exception as e:  # noqa: BLE001
            self.raised = e

    def _q(self):
        try:
            self.loop.quiesce(20000)
        except NoQuiescence:
            self.hang = True

    def gate(self, name):
        n = self.counts.get(name, 0)
        self.counts[name] = n + 1
        if n:
            name = f"{name}~{n}"
        self.gates[name] = self.loop.create_future()
        return name, self.gates[name]

    def wrap(self, key, thunk):
        # the same response path occurs once per event: gate names get a ~n suffix
        if hh(self.sd, key, "m") >= self.opts["p_gate"]:
            return thunk()

        async def later():
            await self.gate(key)[1]
            return thunk()
        return later()

    async def _pull(self):
        try:
            res = await anext(self.stream)
            self.pulls.append({"k": "result", "response": gqlmini.enc_response(res)})
        except StopAsyncIteration:
            self.pulls.append({"k": "end", "response": {"data": {"t": "null"}, "errors": [], "requestError": False}})
        except Exception as e:  # noqa: BLE001
            self.pulls.append({"k": "raised", "response": {"data": {"t": "null"}, "errors": [], "requestError": False}, "cls": type(e).__name__})

    def enabled(self):
        acts = [("settle", g) for g, f in self.gates.items() if not f.done()]
        idle = self.pull_task is None or self.pull_task.done()
        finished = bool(self.pulls) and self.pulls[-1]["k"] != "result"
        if self.stream is not None and idle and not finished:
            acts.append(("pull",))
        return acts

    def do(self, a):
        if a[0] == "settle":
            self.gates[a[1]].set_result(None)
        else:
            self.pull_task = self.loop.create_task(self._pull())
        self._q()

    def close(self):
        for t in self.loop.pending_tasks():
            t.cancel()
        try:
            self.loop.quiesce(20000)
        except NoQuiescence:
            pass
        self.loop.close()


def explore(case, sd, opts, budget, rng):
    results = []
    runs = 0

    def rec(prefix):
        nonlocal runs
        if runs >= budget:
            return
        r = SRun(case, sd, opts)
        for a in prefix:
            r.do(a)
        runs += 1
        acts = r.enabled()
        if not acts or r.hang or len(prefix) > 40:
            results.append((prefix, r))
            return
        r.close()
        for a in acts:
            rec(prefix + [a])
    rec([])
    exhaustive = runs < budget
    k = 0
    while not exhaustive and k < max(3, budget // 5):
        r = SRun(case, sd, opts)
        sched = []
        while True:
            acts = r.enabled()
            if not acts or r.hang or len(sched) > 200:
                break
            a = rng.choice(acts)
            sched.append(a)
            r.do(a)
        results.append((sched, r))
        k += 1
    return results, exhaustive


def _chunk(jobs):
    from graphql import parse, validate
    out = []
    for sd, tier in jobs:
        rng = random.Random(sd)
        case = gqlmini.gen_subscription_case(sd)
        text = gqlmini.render_doc(case, "subscription")
        skipped_root = sd % 17 == 5
        if skipped_root:
            # a document that validation would reject reaches subscribe() all the same: the only root field is excluded by
            # @skip / @include, so there is nothing to create a source from - a failure while creating the source
            d = rng.choice([{"d": "skip", "v": {"lit": True}}, {"d": "include", "v": {"lit": False}}])
            case["doc"]["sel"][0]["dirs"] = [d]
            text = gqlmini.render_doc(case, "subscription")
        try:
            if not skipped_root and validate(gqlmini.schema_with_stream(), parse(text)):
                out.append({"invalid": True})
                continue
        except Exception as e:  # noqa: BLE001
            out.append({"error": f"{type(e).__name__}: {e}", "query": text})
            continue
        opts = {"creation": "skipped-root" if skipped_root else rng.choice(["ok"] * 8 + ["raise", "noniter"]), "source_fails": rng.random() < 0.3,
                "gate_source": rng.random() < 0.6, "gate_subscribe": rng.random() < 0.3, "p_gate": rng.choice([0.0, 0.3, 0.7]),
                "aclose_raises": rng.random() < 0.25}
        if rng.random() < 0.5:
            names = gqlmini.doc_field_names(case["doc"])
            opts["root_value"] = gqlmini.prune(gqlmini.gen_conforming_obj(rng, "Subscription", 2), names)
        if case["events"] and rng.random() < 0.4:
            none_events = sorted(rng.sample(range(len(case["events"])), rng.randint(1, len(case["events"]))))
            opts["none_events"] = none_events
            for k in none_events:
                ev0 = case["events"][k]
                case["events"][k] = {"t": "o", "type": ev0["type"], "f": {f: {"t": "null"} for f in ev0["f"]}}
        results, exhaustive = explore(case, sd, opts, 40 if tier == "quick" else 120, rng)
        for sched, r in results:
            meta = {"seed": sd, "query": text, "variables": gqlmini.render_vars(case), "options": {k: v for k, v in opts.items() if k != "root_value"}, "root_value_given": "root_value" in opts, "n_events": len(case["events"]),
                    "schedule": [list(a) for a in sched], "exhaustive": exhaustive}
            if r.hang or r.raised is not None:
                out.append({"error": "hang" if r.hang else f"subscribe raised {type(r.raised).__name__}: {r.raised}", "_meta": meta})
                r.close()
                continue
            if gqlmini.ROOT_MISMATCH:
                out.append({"error": f"a root field resolver saw info.root_value that is not the event it resolves on (at {gqlmini.ROOT_MISMATCH[0]})", "_meta": meta})
                del gqlmini.ROOT_MISMATCH[:]
                r.close()
                continue
            rec = {"schema": case["schema"], "doc": case["doc"], "vars": case["vars"], "events": case["events"],
                   "creation": opts["creation"], "sourceFails": opts["source_fails"],
                   "hasSingle": r.single is not None,
                   "single": gqlmini.enc_response(r.single) if r.single is not None else {"data": {"t": "null"}, "errors": [], "requestError": False},
                   "pulls": [{"k": p["k"], "response": p["response"]} for p in r.pulls],
                   "_meta": meta, "_closed": r.src_closed, "_started": r.src_started}
            out.append(rec)
            r.close()
    return out


def run(tier: str, rd):
    ev = Evidence(PROP, tier)
    vd = Verdicts(PROP)
    for n, fails in [(0, False), (2, False), (3, True), (3, False)]:
        cfg = (f"SPECIFICATION Spec\nCONSTANT NEvents = {n}\nCONSTANT SourceFails = {'TRUE' if fails else 'FALSE'}\nINVARIANT OneToOne\nINVARIANT NoLoss\n"
               "INVARIANT EndsWithSource\nINVARIANT FailsAfterAll\nINVARIANT ClosedOnce\nPROPERTY Finishes\nCHECK_DEADLOCK FALSE\n")
        r = run_tlc(rd, "Subscribe", cfg, name=f"Sub_{n}_{fails}", timeout=600, allow_violation=True)
        ev.add_tlc(f"M: Subscribe.tla NEvents={n} SourceFails={fails}", r)
        if r.invariant_violations or r.rc == 13:
            vd.violation("model-Subscribe", {"events": n, "fails": fails}, r.tail(40), {"clause": "model-Subscribe"})
    n = 400 if tier == "quick" else 2500
    base = seed() * 1000000 + 700000
    recs = []
    for lst in pmap(_chunk, [(s, tier) for s in range(base, base + n)], chunk=10):
        recs += lst
    for e in [r for r in recs if "error" in r][:5]:
        vd.violation("subscribe-failed", e.get("_meta") or {"query": e.get("query")}, e["error"])
    n_invalid = sum(1 for r in recs if r.get("invalid"))
    recs = [r for r in recs if "pulls" in r]
    hits = {}
    for bi in range(0, len(recs), 4000):
        batch = recs[bi:bi + 4000]
        payload = [{k: v for k, v in r.items() if not k.startswith("_")} for r in batch]
        p = common.write_cases(rd, f"subs{bi}.json", payload)
        r = run_tlc(rd, "SubscribeV", common.v_cfg(), name=f"SubscribeV{bi}", env={"CASES": str(p)}, timeout=3400, heap="16g")
        ev.add_tlc(f"V: {len(batch)} recorded subscription runs vs SubscribeV.tla (S1-S6 with Execute.tla per event)", r)
        for o in r.json_lines():
            rec = batch[o["viol"] - 1]
            hits[o["clause"]] = hits.get(o["clause"], 0) + 1
            vd.violation(o["clause"], rec["_meta"], {"pulls": [p["k"] for p in rec["pulls"]], "hasSingle": rec["hasSingle"]})
    ev.traces += len(recs)
    for r in recs:
        ev.case(None, nontrivial=len(r["pulls"]) >= 2, key=common.digest([r["_meta"]["query"], r["_meta"]["options"], r["_meta"]["schedule"], r["events"]]))
    if recs:
        m = max(recs, key=lambda r: len(r["pulls"]))
        ev.sample({"query": m["_meta"]["query"], "options": m["_meta"]["options"], "schedule": m["_meta"]["schedule"], "pull_outcomes": [p["k"] for p in m["pulls"]]})
    ev.extra.update({"requests": n - n_invalid, "runs": len(recs), "creation_failures": sum(1 for r in recs if r["creation"] != "ok"),
                     "source_failures": sum(1 for r in recs if r["sourceFails"]), "responses_compared_with_Execute": sum(sum(1 for p in r["pulls"] if p["k"] == "result") for r in recs),
                     "clause_hits": hits})
    ev.rule = ("seeded subscription requests x event sequences (0..4 events) x creation/source failure x gating; every interleaving of gate settles and "
               "consumer pulls by re-execution within the budget, random schedules beyond; non-trivial = >= 2 pulls")
    ev.assumptions = ["one action per quiescent point", "the consumer never has two pulls outstanding"]
    rc = vd.finish()
    ev.write(vd)
    return rc


if __name__ == "__main__":
    common.main_wrapper(PROP, run)
