"""C10 - every reported source location is the true line and column.

G: TLC enumerates every string over the location alphabet up to MaxLen and emits Loc for every
   offset and the line table (spec/Location.tla); the real get_location, token line/column,
   syntax-error locations, formatting and excerpts are compared with it.
V: larger documents (kitchen sinks with rewritten line terminators, injected syntax errors,
   validation and execution errors) -> (source, offset, line, column) records evaluated by TLC
   (spec/LocationV.tla).
"""
from __future__ import annotations

import random
import sys

from . import common
from .common import Evidence, Verdicts, run_tlc, pmap, seed

PROP = "C10"
SYM = {"a": "a", "SP": " ", "LF": "\n", "CR": "\r", "FF": "\x0c", "NEL": "\x85", "LS": "\u2028",
       "HASH": "#", "QUOTE": '"', "LBRACE": "{"}
LOC_OFFSETS = [(1, 1), (1, 5), (3, 1), (7, 4)]


def check_excerpt(out: str, name: str, line_num: int, col_num: int, line_text: str):
    """None if `out` names name:line:col, shows line_text on the row labelled line_num and has the caret
    under col_num; otherwise a description of the problem."""
    rows = out.split("\n")
    if rows[0] != f"{name}:{line_num}:{col_num}":
        return f"header {rows[0]!r} != {name}:{line_num}:{col_num}"
    caret = None
    for k in range(1, len(rows)):
        if rows[k].lstrip(" ").startswith("|"):
            caret = k
            break
    if caret is None or caret < 2:
        return "no caret row"
    prefix = f"{line_num} |"
    row = rows[caret - 1]
    pad = len(row) - len(row.lstrip(" "))
    body = row[pad:]
    if not body.startswith(prefix):
        return f"row before caret {row!r} is not labelled {prefix!r}"
    rest = body[len(prefix):]
    want = (" " + line_text) if line_text else ""
    if rest != want:
        return f"excerpt {rest!r} != line text {want!r}"
    crow = rows[caret]
    cbody = crow[crow.index("|") + 1:]
    if cbody != " " + "^".rjust(col_num):
        return f"caret row {crow!r} not under column {col_num}"
    if crow.index("|") != pad + len(prefix) - 1:
        return "caret row misaligned"
    return None


def _g_chunk(recs):
    from graphql import Source, GraphQLSyntaxError
    from graphql.language import Lexer, TokenKind, SourceLocation, get_location, print_source_location
    viol = []
    n_tok = n_err = n_pairs = n_exc = 0
    for rec in recs:
        syms = rec["s"]
        text = "".join(SYM[c] for c in syms)
        locs = [tuple(x) for x in rec["locs"]]
        inside = rec["inside"]
        lines = rec["lines"]
        src = Source(text)
        # clause 1: get_location = Loc
        # one Source object serves all lookups, in ascending, descending and interleaved order, and is also asked about the
        # offsets inside a CR LF pair (not judged themselves): whatever a Source remembers between lookups must not
        # change what it answers later
        n = len(text) + 1
        order = list(range(n)) + list(range(n - 1, -1, -1)) + [o for pair in zip(range(n), range(n - 1, -1, -1)) for o in pair]
        for off in order:
            if inside[off]:
                try:
                    src.get_location(off)
                except Exception as e:  # noqa: BLE001
                    viol.append(("get_location-raises", syms, {"off": off, "exc": type(e).__name__, "inside": True}))
                continue
            n_pairs += 1
            try:
                got = tuple(src.get_location(off))
                got2 = tuple(get_location(src, off))
            except Exception as e:  # noqa: BLE001
                viol.append(("get_location-raises", syms, {"off": off, "exc": type(e).__name__}))
                continue
            if got != locs[off] or got2 != locs[off]:
                viol.append(("get_location", syms, {"off": off, "got": got, "want": locs[off]}))
        # clause 2/3/4: tokens and syntax errors
        lx = Lexer(src)
        tok = lx.token
        try:
            while True:
                nxt = lx.read_next_token(tok.end)
                if nxt.kind == TokenKind.EOF:
                    if (nxt.line, nxt.column) != locs[nxt.start]:
                        viol.append(("token-line-column", syms, {"start": nxt.start, "got": (nxt.line, nxt.column), "want": locs[nxt.start], "kind": "EOF"}))
                    break
                n_tok += 1
                if (nxt.line, nxt.column) != locs[nxt.start]:
                    viol.append(("token-line-column", syms, {"start": nxt.start, "got": (nxt.line, nxt.column), "want": locs[nxt.start], "kind": nxt.kind.name}))
                tok = nxt
        except GraphQLSyntaxError as e:
            n_err += 1
            pos = e.positions[0]
            if not inside[pos]:
                want = locs[pos]
                try:
                    got = [tuple(l) for l in e.locations]
                    fm = e.formatted
                    gotf = [(l["line"], l["column"]) for l in fm["locations"]]
                    if got != [want] or gotf != [want]:
                        viol.append(("syntax-error-location", syms, {"pos": pos, "got": got, "formatted": gotf, "want": want}))
                except Exception as ex:  # noqa: BLE001
                    viol.append(("format-raises", syms, {"pos": pos, "exc": type(ex).__name__}))
                try:
                    text_out = str(e)
                    repr(e)
                    ln = lines[want[0] - 1]
                    msg, _, excerpt = text_out.partition("\n\n")
                    p = check_excerpt(excerpt, "GraphQL request", want[0], want[1], text[ln[0]:ln[1]])
                    if p:
                        viol.append(("error-excerpt", syms, {"pos": pos, "problem": p}))
                except Exception as ex:  # noqa: BLE001
                    viol.append(("format-raises", syms, {"pos": pos, "exc": type(ex).__name__, "what": "str(error)"}))
        except Exception:  # noqa: BLE001  (C01's clause, not C10's)
            pass
        # clause 5: excerpts with location offsets, for every offset
        for off in range(len(text) + 1):
            if inside[off]:
                continue
            line, col = locs[off]
            ln = lines[line - 1]
            for lo in LOC_OFFSETS:
                n_exc += 1
                s2 = Source(text, "S", SourceLocation(*lo))
                try:
                    out = print_source_location(s2, SourceLocation(line, col))
                except Exception as ex:  # noqa: BLE001
                    viol.append(("format-raises", syms, {"off": off, "lo": lo, "exc": type(ex).__name__}))
                    continue
                lt = text[ln[0]:ln[1]]
                if line == 1:
                    lt = " " * (lo[1] - 1) + lt
                want_line = line + lo[0] - 1
                want_col = col + (lo[1] - 1 if line == 1 else 0)
                p = check_excerpt(out, "S", want_line, want_col, lt)
                if p:
                    viol.append(("excerpt", syms, {"off": off, "lo": lo, "problem": p}))
    return viol, n_pairs, n_tok, n_err, n_exc


# ---------------------------------------------------------------------------------------------
# V: larger documents

def abstract_text(text: str):
    return ["LF" if c == "\n" else "CR" if c == "\r" else "a" for c in text]


def rewrite_terminators(text: str, rng: random.Random) -> str:
    out = []
    for c in text:
        if c == "\n":
            out.append(rng.choice(["\n", "\r", "\r\n", "\n\n", "\r\r\n", "\n\x0c", "\x85\n", " \n"]))
        else:
            out.append(c)
    return "".join(out)


V_SCHEMA = """
type Query { node(id: [Int]): Node  unnamed(truthy: Boolean, falsy: Boolean, nullish: Int): Int  query: Int
  boom: Int  deep: Deep }
type Deep { boom: Int!  ok: Int  list: [Deep!] }
interface Node { id: ID }
type User implements Node { id: ID  field2: Field2 }
type Field2 { id: ID  field1(first: Int, after: Int): Field2 }
"""

V_DOCS = [
    "{\n  boom\n  deep {\n    ok\n    boom\n  }\n}\n",
    "query Q {\n deep { list { boom ok }\n  ok }\n\n boom }",
    "{ a: boom\n\n\n b: boom,\n   c: deep { list { list { boom } } } }",
    "{\n  unknownField\n  deep {\n    nope\n    ok(x: 1)\n  }\n  ...Missing\n}\nfragment Unused on Query {\n  query\n}\n",
    "query A($v: Nope,\n $w: Int) {\n  query\n}\nquery A {\n  query @skip\n}\n",
]


def v_records(tier: str, rng: random.Random):
    from graphql import Source, parse, validate, build_schema, execute_sync, GraphQLError, GraphQLSyntaxError
    from pathlib import Path
    corpus = [(Path(__file__).parent / "corpus" / n).read_text() for n in ("kitchen_sink.graphql", "schema_kitchen_sink.graphql")]
    schema = build_schema(V_SCHEMA)
    n_var = 6 if tier == "quick" else 40
    recs, observed = [], []

    def boom(*_a):
        raise RuntimeError("boom")

    class Root:
        def __init__(self, d=0):
            self.d = d
        boom = property(lambda self: boom())
        ok = 1
        query = 1

        @property
        def deep(self):
            return Root(self.d + 1)

        @property
        def list(self):
            return [Root(self.d + 1), Root(self.d + 1)] if self.d < 3 else []

    def observe_multi(errors, what):
        """errors whose blamed nodes lie in several sources: every location is the true one in the node's OWN source"""
        by_src = {}
        problems = []
        for e in errors:
            nodes = [n for n in (e.nodes or []) if n.loc]
            locs = e.locations or []
            if len(nodes) != len(locs):
                problems.append(("", ("locations-count", len(locs), len(nodes))))
                continue
            try:
                fl = e.formatted.get("locations", [])
                str(e)
            except Exception as ex:  # noqa: BLE001
                problems.append(("", ("format-raises", type(ex).__name__)))
                continue
            for n, l, f in zip(nodes, locs, fl):
                body = n.loc.source.body
                by_src.setdefault(body, []).append([n.loc.start, l.line, l.column])
                if (f["line"], f["column"]) != (l.line, l.column):
                    problems.append((body, ("formatted-differs", n.loc.start)))
        return [{"src": abstract_text(body), "checks": checks, "what": what} for body, checks in by_src.items()], problems

    def observe(text, errors, what):
        checks = []
        fmt_problems = []
        for e in errors:
            positions = []
            if e.nodes:
                positions = [n.loc.start for n in e.nodes if n.loc]
            elif e.positions:
                positions = list(e.positions)
            locs = e.locations or []
            if len(locs) != len(positions):
                fmt_problems.append(("locations-count", len(locs), len(positions)))
                continue
            try:
                fl = e.formatted.get("locations", [])
                s = str(e)
                repr(e)
            except Exception as ex:  # noqa: BLE001
                fmt_problems.append(("format-raises", type(ex).__name__))
                continue
            for p, l, f in zip(positions, locs, fl):
                checks.append([p, l.line, l.column])
                if (f["line"], f["column"]) != (l.line, l.column):
                    fmt_problems.append(("formatted-differs", p))
            observed.append((text, positions, s))
        return {"src": abstract_text(text), "checks": checks, "what": what}, fmt_problems

    all_fmt = []
    texts = []

    def token_checks(text, cap):
        """(start, line, column) of the tokens the real lexer produces - the lexer's incremental line / line_start
        bookkeeping (also inside block strings and after comments) against Loc"""
        from graphql.language import Lexer, TokenKind
        toks = []
        # three ways of walking the tokens: advance() only; a lookahead() before every advance (the parser looks ahead after
        # descriptions and `extend`); the token chain the parser leaves behind (start_token ... next)
        for mode in ("advance", "lookahead"):
            lx = Lexer(Source(text))
            try:
                while True:
                    if mode == "lookahead":
                        la = lx.lookahead()
                        toks.append([la.start, la.line, la.column, la.kind.name])
                    t = lx.advance()
                    toks.append([t.start, t.line, t.column, t.kind.name])
                    if t.kind == TokenKind.EOF:
                        break
            except GraphQLError:
                pass
        try:
            t = parse(Source(text)).loc.start_token
            while t is not None:
                if t.kind != TokenKind.SOF:
                    toks.append([t.start, t.line, t.column, t.kind.name])
                t = t.next
        except GraphQLError:
            pass
        seen_t = set()
        toks = [x for x in toks if not (tuple(x) in seen_t or seen_t.add(tuple(x)))]
        toks.sort(key=lambda x: x[0])
        if len(toks) > cap:
            # keep the tokens that follow a block string, plus a seeded sample of the others
            keep = [k for k in range(1, len(toks)) if toks[k - 1][3] == "BLOCK_STRING"]
            rest = [k for k in range(len(toks)) if k not in keep]
            keep += rng.sample(rest, max(0, min(len(rest), cap - len(keep))))
            toks = [toks[k] for k in sorted(keep)]
        return [t[:3] for t in toks]

    # block-string snippets: tokens on the line on which a block string ends, every terminator inside and around it
    terms = ["\n", "\r", "\r\n"]
    for _ in range(150 if tier == "quick" else 1500):
        body = "".join(rng.choice(["a", " b", "", "  "]) + rng.choice(terms + [""]) for _ in range(rng.randrange(1, 5)))
        text = rng.choice(["{ f(x: ", '"d" ', "", "#c" + rng.choice(terms)]) + '"""' + body + '"""' + rng.choice([" b", "b", ") { c }", " #c" + rng.choice(terms) + "d"]) \
            + rng.choice(["", rng.choice(terms) + " e", ' """x' + rng.choice(terms) + '""" f'])
        recs.append({"src": abstract_text(text), "checks": token_checks(text, 60), "what": "tokens"})
    # errors that blame nodes of two sources at the SAME offset whose line structure before that offset differs
    from graphql import extend_schema
    from graphql.utilities import concat_ast
    from graphql.type import validate_schema

    def layout(n):
        return "".join(rng.choice([" ", "\n", "\r", "\r\n", ",", "\t"]) for _ in range(n))[:n].ljust(n)
    for _ in range(40 if tier == "quick" else 400):
        n = rng.randrange(2, 14)
        p1, p2 = layout(n), layout(n)
        try:
            body = rng.choice(["query Q { query }", "fragment F on Query { query } query Q { ...F }", "query Q { query } query Q { boom }"])
            da, db = parse(Source(p1 + body, "A")), parse(Source(p2 + body, "B"))
            rs, pr = observe_multi(validate(schema, concat_ast([da, db])), "validation-multi-source")
            recs += rs; all_fmt += pr
            # a definition and its extension in two sources, the blamed nodes at the same offset in both
            a_sdl, b_sdl = rng.choice([("       union U type Query { q: Int }", "extend union U @deprecated"),
                                       ("       enum E type Query { q: E }", "extend enum E @deprecated"),
                                       ("   union U = A type A { x: Int } type Query { q: U }", "extend union U = A"),
                                       ("interface I { x: Int } type T implements I { x: Int } type Query { q: T }", "extend type T implements I")])
            shift = max(0, (a_sdl.find("= A") + 2 if "= A" in a_sdl else a_sdl.find("implements I") + 11 if "implements" in a_sdl else 0)
                        - (b_sdl.find("= A") + 2 if "= A" in b_sdl else b_sdl.find("implements I") + 11 if "implements" in b_sdl else 0))
            sa = build_schema(Source(p1 + a_sdl, "A"))
            sb = extend_schema(sa, parse(Source(p2 + " " * shift + b_sdl, "B")), assume_valid_sdl=True)
            rs, pr = observe_multi(validate_schema(sb), "schema-validation-multi-source")
            recs += rs; all_fmt += pr
        except GraphQLError:
            pass
    for _ in range(60 if tier == "quick" else 600):
        nl = lambda: rng.choice(terms + [" ", ""])      # noqa: E731
        text = rng.choice(['"d"', '"""d' + rng.choice(terms) + 'e"""', ""]) + nl() + "type T {" + nl() + rng.choice(['"fd"' + nl(), ""]) + "f: Int" + nl() + "}" + nl() \
            + "extend" + nl() + rng.choice(["#c" + rng.choice(terms), ""]) + "type T {" + nl() + "g: Int }" + nl() + rng.choice(['"q"' + nl() + "query Q { f }", "{ f }"])
        recs.append({"src": abstract_text(text), "checks": token_checks(text, 80), "what": "tokens"})
    # an execution error that carries the field nodes of the request AND the source / positions of another text: a resolver
    # parses GraphQL text of its own and lets the syntax error escape. locations are the true ones in that other text; the
    # rendered text excerpts the request at the nodes
    from graphql import GraphQLSyntaxError as _GSE
    for _ in range(25 if tier == "quick" else 250):
        inner = "".join(rng.choice(["a", " ", "{", "\n", "\r\n", "\r"]) for _ in range(rng.randrange(3, 40)))
        pos = rng.randrange(len(inner) + 1)
        if pos and inner[pos - 1] == "\r" and inner[pos:pos + 1] == "\n":
            pos += 1
        request = rng.choice(["{ inner }", "{\n  inner\n}", "{ deep {\r\n ok\n  inner } }", "{ a: inner\n\n b: inner }"])

        class RootS(Root):
            @property
            def inner(self):
                raise _GSE(Source(inner, "inner text"), pos, "bad")

            @property
            def deep(self):
                return RootS(self.d + 1)
        try:
            res = execute_sync(build_schema(V_SCHEMA.replace("boom: Int  deep: Deep }", "boom: Int  deep: Deep  inner: Int }").replace("type Deep {", "type Deep { inner: Int ")),
                               parse(Source(request)), RootS())
        except Exception as ex:  # noqa: BLE001
            all_fmt.append((request, ("execute-raises", type(ex).__name__)))
            continue
        for e in res.errors or []:
            if not (e.source is not None and e.positions and e.nodes):
                continue
            locs = e.locations or []
            recs.append({"src": abstract_text(e.source.body), "checks": [[p_, l.line, l.column] for p_, l in zip(e.positions, locs)], "what": "execution-inner-source"})
            try:
                fl = e.formatted.get("locations", [])
                if [(f["line"], f["column"]) for f in fl] != [(l.line, l.column) for l in locs]:
                    all_fmt.append((request, ("formatted-differs", pos)))
                s_ = str(e)
                repr(e)
            except Exception as ex:  # noqa: BLE001
                all_fmt.append((request, ("format-raises", type(ex).__name__)))
                continue
            observed.append((request, [n.loc.start for n in e.nodes if n.loc], s_))
    for base in corpus + V_DOCS:
        for k in range(n_var):
            texts.append(base if k == 0 else rewrite_terminators(base, rng))
    for text in texts:
        # syntax errors: truncate / substitute at random positions
        for _ in range(3 if tier == "quick" else 10):
            pos = rng.randrange(len(text) + 1)
            bad = text[:pos] + rng.choice(["?", "\x00", '"', "}", "\\", "..", "1a"]) + (text[pos:] if rng.random() < 0.5 else "")
            try:
                parse(Source(bad))
            except GraphQLSyntaxError as e:
                r, f = observe(bad, [e], "syntax")
                recs.append(r); all_fmt += [(bad, x) for x in f]
            except Exception:  # noqa: BLE001
                pass
        recs.append({"src": abstract_text(text), "checks": token_checks(text, 40), "what": "tokens"})
        try:
            doc = parse(Source(text))
        except GraphQLError:
            continue
        # token positions of the whole document through the AST: every node's start
        try:
            errs = validate(schema, doc)
        except Exception:  # noqa: BLE001
            errs = []
        if errs:
            r, f = observe(text, errs, "validation")
            recs.append(r); all_fmt += [(text, x) for x in f]
        else:
            try:
                res = execute_sync(schema, doc, Root())
            except Exception:  # noqa: BLE001
                res = None
            if res is not None and res.errors:
                r, f = observe(text, res.errors, "execution")
                recs.append(r); all_fmt += [(text, x) for x in f]
    return recs, all_fmt, observed


def spec_lines(text: str):
    """harness-side transcription of Lines (only for checking excerpts of V records, whose Loc was
    validated by TLC)."""
    import re
    return re.split(r"\r\n|\n|\r", text)


def run(tier: str, rd):
    ev = Evidence(PROP, tier)
    vd = Verdicts(PROP)
    maxlen = 5 if tier == "quick" else 6
    cfg = f"INIT Init\nNEXT Next\nINVARIANT SpecOK\nINVARIANT Emit\nCONSTANT MaxLen = {maxlen}\n"
    r = run_tlc(rd, "Location", cfg, timeout=3000, heap="12g")
    ev.add_tlc(f"G: all strings over the 10-symbol location alphabet, length <= {maxlen}", r)
    recs = list(r.json_lines())
    expected = sum(10 ** k for k in range(maxlen + 1))
    if len(recs) != expected:
        raise common.MachineryError(f"expected {expected} emitted strings, parsed {len(recs)}")
    results = pmap(_g_chunk, recs, chunk=4000)
    n_pairs = n_tok = n_err = n_exc = 0
    for viol, a, b, c, d in results:
        n_pairs += a; n_tok += b; n_err += c; n_exc += d
        for clause, syms, detail in viol:
            sig = {"clause": clause}
            vd.violation(clause, {"symbols": syms}, detail, sig)
    for rec in recs:
        ev.case(rec["s"], nontrivial=any(c in ("LF", "CR") for c in rec["s"]), key="".join(SYM[c] for c in rec["s"]))
    ev.traces += len(recs)
    ev.sample({"symbols": recs[len(recs) // 2]["s"], "locs": recs[len(recs) // 2]["locs"]})
    # V
    rng = random.Random(seed())
    vrecs, fmt_problems, observed = v_records(tier, rng)
    for text, p in fmt_problems:
        vd.violation("format-" + str(p[0]), {"text": text[:200]}, p)
    if vrecs:
        vrecs_c = [x for x in vrecs if x["checks"]]
        cases = [{"src": x["src"], "checks": x["checks"]} for x in vrecs_c]
        p = common.write_cases(rd, "cases.json", cases)
        r2 = run_tlc(rd, "LocationV", "INIT VInit\nNEXT VNext\nINVARIANT Check\nCONSTANT MaxLen = 0\n",
                     env={"CASES": str(p)}, timeout=1800)
        ev.add_tlc("V: error locations of generated erroneous documents", r2)
        for out in r2.json_lines():
            c = cases[out["viol"] - 1]
            clause = "token-line-column" if vrecs_c[out["viol"] - 1]["what"] == "tokens" else "error-location"
            vd.violation(clause, {"src_symbols": c["src"][:300]}, {"checks": out["checks"], "want": out["want"]})
        ev.traces += len(cases)
        kinds = {}
        for x in vrecs:
            kinds[x["what"]] = kinds.get(x["what"], 0) + len(x["checks"])
        ev.extra["v_error_locations_by_kind"] = kinds
        for x in vrecs:
            ev.case(x, nontrivial=len(x["checks"]) > 0 and ("LF" in x["src"] or "CR" in x["src"]))
        if vrecs:
            ev.sample({"v_record": {"src_len": len(vrecs[0]["src"]), "checks": vrecs[0]["checks"][:4], "what": vrecs[0]["what"]}})
    # excerpts of V observations: str(error) shows the line named by the (TLC-validated) location
    n_obs = 0
    for text, positions, s in observed:
        from graphql import Source
        lines = spec_lines(text)
        blocks = s.split("\n\n")[1:]
        if len(blocks) < len(positions):
            vd.violation("error-excerpt", {"text": text[:200]}, "fewer excerpts than locations")
            continue
        for pos, block in zip(positions, blocks):
            # line/col per TLC-validated Loc == library's report (checked above); recompute simply
            pre = text[:pos]
            line = 1 + len(spec_lines(pre)) - 1
            lt = lines[line - 1]
            if len(lt) > 120:
                continue
            col = len(spec_lines(pre)[-1]) + 1
            n_obs += 1
            pr = check_excerpt(block, "GraphQL request", line, col, lt)
            if pr:
                vd.violation("error-excerpt", {"text": text[:300], "pos": pos}, pr)
    ev.extra.update({"offset_pairs_compared": n_pairs, "tokens_compared": n_tok, "syntax_errors_compared": n_err,
                     "excerpts_checked": n_exc + n_obs})
    ev.rule = ("G: every string over {a,SP,LF,CR,FF,NEL,LS,#,\",{} up to the length bound x every offset (exhaustive); "
               "non-trivial = contains a line terminator; V: seeded erroneous documents with rewritten terminators")
    ev.exhaustive = True
    ev.assumptions = ["offsets strictly inside a CR LF pair are excluded (no token or error can start there)",
                      "symbol 'a' stands for every non-terminator character in V records"]
    rc = vd.finish()
    ev.write(vd)
    return rc


if __name__ == "__main__":
    common.main_wrapper(PROP, run)
