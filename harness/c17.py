"""C17 - a schema survives printing to SDL and rebuilding.

Abstract schemas come from the seeded generator (all type kinds, interface hierarchies with covariant fields,
recursive and OneOf input objects, custom directives, non-default root names, adversarial descriptions and
deprecation reasons, defaults of every input type). Each is rendered twice - as SDL written by the harness and
programmatically through the GraphQL* constructors - and for each real schema s:
   P = print_schema(s); s' = build_schema(P)
   (1) building succeeds and validate_schema(s') == []      (2) print_schema(s') == P
   (3) project(s') == project(s) == the abstract schema, order included (evaluated by TLC, SchemaV.tla, together
       with SchemaValid.tla on the abstract schema: the generator's claim of validity is checked by the spec)
   (4) find_schema_changes(s, s') == []
"""
from __future__ import annotations

from . import common, gen_schema as gs
from .common import Evidence, Verdicts, run_tlc, pmap, seed

PROP = "C17"


def _chunk(seeds):
    from graphql import build_schema, print_schema, validate_schema, GraphQLError
    from graphql.utilities import find_schema_changes
    out = []
    for sd in seeds:
        S = gs.gen_schema(sd)
        viol = []
        projections = []
        want = gs.normalise(S)
        routes = {}
        try:
            routes["sdl"] = build_schema(gs.to_sdl(S))
            routes["programmatic"] = gs.to_objects(S)
        except Exception as e:  # noqa: BLE001  (a schema that cannot be constructed is outside the statement)
            out.append({"skipped": f"construction: {type(e).__name__}: {str(e)[:100]}", "seed": sd})
            continue
        if any(validate_schema(s) for s in routes.values()):
            out.append({"skipped": "generated schema is not valid", "seed": sd})
            continue
        for route, s in routes.items():
            try:
                P = print_schema(s)
            except Exception as e:  # noqa: BLE001
                viol.append(("print_schema-raises", route, f"{type(e).__name__}: {str(e)[:120]}"))
                continue
            try:
                s2 = build_schema(P)
            except Exception as e:  # noqa: BLE001
                viol.append(("printed-schema-does-not-build", route, {"error": f"{type(e).__name__}: {str(e)[:160]}", "printed": P[:600]}))
                continue
            errs = validate_schema(s2)
            if errs:
                viol.append(("rebuilt-schema-invalid", route, [e.message for e in errs][:3]))
            P2 = print_schema(s2)
            if P2 != P:
                k = next((i for i, (a, b) in enumerate(zip(P, P2)) if a != b), min(len(P), len(P2)))
                viol.append(("reprint-differs", route, {"at": k, "first": P[max(0, k - 60):k + 60], "second": P2[max(0, k - 60):k + 60]}))
            try:
                ch = find_schema_changes(s, s2)
                if ch:
                    viol.append(("changes-reported-between-schema-and-rebuilt", route, [str(c.description) for c in ch][:4]))
            except Exception as e:  # noqa: BLE001
                viol.append(("find_schema_changes-raises", route, type(e).__name__))
            p0, p1 = gs.normalise(gs.project(s)), gs.normalise(gs.project(s2))
            projections += [p0, p1]
            for nm, pr in (("rendered", p0), ("rebuilt", p1)):
                d = gs.diff(want, pr)
                if d:
                    viol.append((f"projection-of-{nm}-schema-differs", route, d))
        out.append({"kind": "roundtrip", "schema": gs.to_wire(want), "projections": [gs.to_wire(p) for p in projections], "_viol": viol, "_seed": sd,
                    "_size": len(S["types"])})
    return out


def run(tier: str, rd):
    ev = Evidence(PROP, tier)
    vd = Verdicts(PROP)
    n = 600 if tier == "quick" else 4000
    base = seed() * 1000000 + 1700000
    recs = []
    for lst in pmap(_chunk, list(range(base, base + n)), chunk=10):
        recs += lst
    skipped = [r for r in recs if "skipped" in r]
    recs = [r for r in recs if "kind" in r]
    for r in recs:
        for clause, route, detail in r["_viol"]:
            vd.violation(clause, {"seed": r["_seed"], "route": route}, detail, {"clause": clause, "route": route})
    hits = {}
    for bi in range(0, len(recs), 400):
        batch = recs[bi:bi + 400]
        payload = [{k: v for k, v in r.items() if not k.startswith("_")} for r in batch]
        p = common.write_cases(rd, f"rt{bi}.json", payload)
        r = run_tlc(rd, "SchemaV", common.v_cfg(), name=f"SchemaV{bi}", env={"CASES": str(p)}, timeout=3400, heap="20g")
        ev.add_tlc(f"V: {len(batch)} abstract schemas: SchemaValid + projections of rendered/rebuilt schemas equal the model", r)
        for o in r.json_lines():
            rec = batch[o["viol"] - 1]
            hits[o["clause"]] = hits.get(o["clause"], 0) + 1
            vd.violation(o["clause"], {"seed": rec["_seed"]}, {"rules": o.get("rules"), "which_projection": o.get("which")})
    ev.traces += len(recs)
    for r in recs:
        ev.case(None, nontrivial=r["_size"] >= 3, key=str(r["_seed"]))
    if recs:
        S0 = gs.gen_schema(recs[0]["_seed"])
        ev.sample({"seed": recs[0]["_seed"], "sdl": gs.to_sdl(S0)[:700]})
    ev.extra.update({"schemas": len(recs), "skipped": len(skipped), "skip_reasons": sorted({s["skipped"][:60] for s in skipped})[:5], "clause_hits": hits,
                     "routes": ["sdl", "programmatic"]})
    ev.rule = "seeded abstract schemas, each rendered as SDL and programmatically; non-trivial = >= 3 user-defined types"
    ev.assumptions = ["descriptions and deprecation reasons drawn from an adversarial pool of 20 texts", "custom scalars carry no coercion functions"]
    rc = vd.finish()
    ev.write(vd)
    return rc


if __name__ == "__main__":
    common.main_wrapper(PROP, run)
