"""The abstract GraphQL domain shared by C02/C03/C07/C13 (DESIGN 3.4): abstract schema, documents, variables and
data graphs as plain JSON values (the wire format of spec/Execute.tla), a seeded generator, renderers to real
GraphQL objects / query text / Python data, and the recorder of real executions."""
from __future__ import annotations

import random

from . import wire

N = lambda n: ["N", n]        # noqa: E731
L = lambda t: ["L", t]        # noqa: E731
NN = lambda t: ["NN", t]      # noqa: E731


def fld(t, args=()):
    return {"type": t, "args": [{"name": a[0], "type": a[1], "hasDefault": len(a) > 2, "default": ival(a[2]) if len(a) > 2 else {"t": "null"}} for a in args]}


def ival(v):
    if v is None:
        return {"t": "null"}
    if isinstance(v, dict):
        return {"t": "o", "kv": [[k, ival(x)] for k, x in v.items()]}
    if isinstance(v, (list, tuple)):
        return {"t": "l", "v": [ival(x) for x in v]}
    if isinstance(v, bool):
        return {"t": "b", "v": v}
    return {"t": "i", "v": v}


TYPES = {
    "Int": {"kind": "SCALAR", "fields": {}, "possible": []},
    "String": {"kind": "SCALAR", "fields": {}, "possible": []},
    "Boolean": {"kind": "SCALAR", "fields": {}, "possible": []},
    "Query": {"kind": "OBJECT", "possible": [], "fields": {
        "a": fld(N("Int")), "b": fld(NN(N("Int"))), "s": fld(N("String")), "t": fld(N("Boolean")),
        "f": fld(N("Int"), [("x", N("Int")), ("y", NN(N("Int")), 5), ("z", N("Int"), 7)]),
        "g": fld(N("Int"), [("req", NN(N("Int")))]),
        "sum": fld(N("Int"), [("xs", L(NN(N("Int"))), [1, 2]), ("ys", L(N("Int")))]),
        "o": fld(N("A")), "on": fld(NN(N("A"))), "l": fld(L(N("A"))), "ln": fld(NN(L(NN(N("A"))))),
        "i": fld(N("I")), "u": fld(N("U")), "li": fld(L(NN(N("Int")))), "lli": fld(L(L(N("Int")))),
        "lu": fld(L(N("U"))), "lin": fld(L(NN(N("I")))),
        # lists whose own nullability differs from their items' (the error of an item is absorbed at different places)
        "la": fld(L(NN(N("A")))), "lb": fld(NN(L(N("A"))))}},
    "A": {"kind": "OBJECT", "possible": [], "fields": {
        "x": fld(N("Int")), "y": fld(NN(N("Int"))), "o": fld(N("A")), "i": fld(N("I")), "l": fld(L(N("Int"))),
        "f": fld(N("Int"), [("x", N("Int"), 1)]), "s": fld(N("String")), "lu": fld(L(N("U"))),
        "la": fld(L(NN(N("A")))), "lb": fld(NN(L(N("A"))))}},
    # B implements I.f with another default and an additional optional argument (argument values depend on the runtime type)
    "B": {"kind": "OBJECT", "possible": [], "fields": {"x": fld(N("Int")), "z": fld(NN(N("Int"))), "o": fld(N("A")),
                                                      "f": fld(N("Int"), [("x", N("Int"), 2), ("extra", N("Int"), 9)])}},
    "I": {"kind": "INTERFACE", "possible": ["A", "B"], "fields": {"x": fld(N("Int")), "f": fld(N("Int"), [("x", N("Int"), 1)])}},
    "U": {"kind": "UNION", "possible": ["A", "B"], "fields": {}},
}
# an input object type: a plain field, a non-null field with a default, a recursive field, a list field
TYPES["In"] = {"kind": "INPUT_OBJECT", "fields": {}, "possible": [], "inputFields": fld(N("Int"), [
    ("a", N("Int")), ("b", NN(N("Int")), 5), ("c", N("In")), ("l", L(NN(N("Int")))), ("r", NN(N("Int")))])["args"]}
TYPES["Query"]["fields"]["h"] = fld(N("Int"), [("o", N("In")), ("ol", L(NN(N("In")))), ("od", NN(N("In")), {"r": 1, "a": 2})])
TYPES["Mutation"] = {"kind": "OBJECT", "possible": [], "fields": dict(TYPES["Query"]["fields"])}
TYPES["Subscription"] = {"kind": "OBJECT", "possible": [], "fields": {
    "ev": fld(N("A")), "evn": fld(NN(N("A"))), "num": fld(N("Int"), [("x", N("Int"), 2)]), "li": fld(L(NN(N("Int")))), "iface": fld(N("I"))}}
ABS = {"query": "Query", "types": TYPES}
ABS_SUBSCRIPTION = {"query": "Subscription", "types": TYPES}
ABS_MUTATION = {"query": "Mutation", "types": TYPES}


def named_of(t):
    while t[0] != "N":
        t = t[1]
    return t[1]


def tstr(t):
    return t[1] if t[0] == "N" else ("[" + tstr(t[1]) + "]" if t[0] == "L" else tstr(t[1]) + "!")


def lit(v):
    if v["t"] == "null":
        return "null"
    if v["t"] == "s":
        return '"' + str(v["v"]) + '"'
    if v["t"] == "e":
        return str(v["v"])
    if v["t"] == "b":
        return "true" if v["v"] else "false"
    if v["t"] == "var":
        return "$" + v["n"]
    if v["t"] == "l":
        return "[" + ", ".join(lit(x) for x in v["v"]) + "]"
    if v["t"] == "o":
        return "{" + ", ".join(f"{k}: {lit(x)}" for k, x in v["kv"]) + "}"
    return str(v["v"])


STREAM_SDL = ("directive @stream(if: Boolean! = true, label: String, initialCount: Int! = 0) on FIELD\n"
              "directive @defer(if: Boolean! = true, label: String) on FRAGMENT_SPREAD | INLINE_FRAGMENT\n")


def sdl():
    out = []
    for n, d in TYPES.items():
        if d["kind"] == "SCALAR":
            continue
        if d["kind"] == "INPUT_OBJECT":
            out.append(f"input {n} {{ " + " ".join(a["name"] + ": " + tstr(a["type"]) + (" = " + lit(a["default"]) if a["hasDefault"] else "") for a in d["inputFields"]) + " }")
            continue
        if d["kind"] == "UNION":
            out.append(f"union {n} = " + " | ".join(d["possible"]))
            continue
        impl = " implements I" if n in ("A", "B") else ""
        if n == "Mutation":
            pass
        kw = "interface" if d["kind"] == "INTERFACE" else "type"
        fs = []
        for f, fd in d["fields"].items():
            args = ""
            if fd["args"]:
                args = "(" + ", ".join(a["name"] + ": " + tstr(a["type"]) + (" = " + lit(a["default"]) if a["hasDefault"] else "") for a in fd["args"]) + ")"
            fs.append(f"{f}{args}: {tstr(fd['type'])}")
        out.append(f"{kw} {n}{impl} {{ " + " ".join(fs) + " }")
    return "\n".join(out)


_schema = None


IS_TYPE_OF_HOOK = None      # set by C03: (type name, thunk, info) -> bool or awaitable


_schema_stream = None


def schema_with_stream():
    """the same schema with the experimental directives defined (subscription documents carry switched-off @stream)"""
    global _schema_stream
    if _schema_stream is None:
        global _schema
        keep, _schema = _schema, None
        try:
            _schema_stream = schema(STREAM_SDL)
        finally:
            _schema = keep
    return _schema_stream


def schema(prefix=""):
    global _schema
    if _schema is None:
        from graphql import build_schema
        _schema = build_schema(prefix + sdl())
        for tn in ("A", "B"):
            def is_type_of(value, info, tn=tn):
                def thunk():
                    # an object may be one that its own type's is_type_of rejects ("reject": the resolved type is not what it is)
                    return getattr(value, "typename", None) == tn and not getattr(value, "reject", False)
                if IS_TYPE_OF_HOOK is not None:
                    return IS_TYPE_OF_HOOK(tn, thunk, info)
                return thunk()
            _schema.type_map[tn].is_type_of = is_type_of
    return _schema


# ---------------------------------------------------------------------------------------------
# generator

VARDEFS = [("vi", N("Int"), None), ("vd", N("Int"), 3), ("vn", NN(N("Int")), None), ("vt", NN(N("Boolean")), True),
           ("vf", NN(N("Boolean")), False), ("vb", NN(N("Boolean")), None),
           # list variables; vl's default is the same literal as vd's and coerces to [3]
           ("vl", L(N("Int")), 3), ("vm", L(NN(N("Int"))), [4, 3]),
           # variables of input object type (values: maps with explicit nulls, missing fields, nested maps, unknown keys)
           ("vo", N("In"), None), ("vq", N("In"), {"r": 1, "a": 2}), ("vr", NN(N("In")), None)]


def gen_outcome(rnd, t, depth, p_null=0.12, p_err=0.1, p_bad=0.04):
    r = rnd.random()
    if r < p_null:
        return {"t": "null"}
    if r < p_null + p_err:
        return {"t": "err"}
    if t[0] == "NN":
        return gen_outcome(rnd, t[1], depth, p_null * 0.3, p_err, p_bad)
    if t[0] == "L":
        if rnd.random() < p_bad:
            return {"t": "bad"}
        return {"t": "l", "v": [gen_outcome(rnd, t[1], depth, p_null, p_err, p_bad) for _ in range(rnd.randint(0, 3))]}
    d = TYPES[t[1]]
    if d["kind"] == "SCALAR":
        if rnd.random() < p_bad:
            return {"t": "bad"}
        if t[1] == "Int":
            return {"t": "v", "v": {"t": "i", "v": rnd.randint(0, 9)}}
        if t[1] == "Boolean":
            return {"t": "v", "v": {"t": "b", "v": rnd.random() < 0.5}}
        return {"t": "v", "v": {"t": "s", "v": "s%d" % rnd.randint(0, 9)}}
    if depth <= 0:
        return {"t": "null"}
    if d["kind"] != "OBJECT" and rnd.random() < p_bad:
        return {"t": "bad"}
    if d["kind"] == "OBJECT":
        rt = t[1]
    else:
        rt = rnd.choice(d["possible"] + (["Query"] if rnd.random() < 0.05 else []))   # sometimes an impossible runtime type
    return gen_obj(rnd, rt, depth - 1, p_null, p_err, p_bad)


def gen_obj(rnd, tn, depth, p_null=0.12, p_err=0.1, p_bad=0.04):
    o = {"t": "o", "type": tn, "f": {f: gen_outcome(rnd, fd["type"], depth, p_null, p_err, p_bad) for f, fd in TYPES[tn]["fields"].items()}}
    if tn in ("A", "B") and p_bad and rnd.random() < 0.05:
        o["reject"] = True          # is_type_of of its (resolved) type says no
    return o


def possible(tn):
    d = TYPES[tn]
    return {tn} if d["kind"] == "OBJECT" else set(d["possible"])


def compatible(a, b):
    return bool(possible(a) & possible(b))


class DocGen:
    def __init__(self, rnd):
        self.rnd = rnd
        self.frags = {}
        self.used_vars = set()
        self.argcache = {}
        self.open_frags = set()

    def dirs(self):
        rnd = self.rnd
        out = []
        if rnd.random() < 0.2:
            for d in rnd.sample(["skip", "include"], rnd.choice([1, 1, 2])):
                if rnd.random() < 0.5:
                    v = {"lit": rnd.random() < 0.5}
                else:
                    var = rnd.choice(["vt", "vf", "vb"])
                    self.used_vars.add(var)
                    v = {"var": var}
                out.append({"d": d, "v": v})
        return out

    def args(self, fd):
        rnd = self.rnd
        out = []
        for a in fd["args"]:
            r = rnd.random()
            nonnull = a["type"][0] == "NN"
            if r < 0.35 and not (nonnull and not a["hasDefault"]):
                continue   # not provided
            r2 = rnd.random()
            if named_of(a["type"]) == "In" and a["type"][0] != "L" and r2 > 0.65:
                # a variable of input object type as the whole argument (od: In! has a default, so a nullable variable fits)
                var = rnd.choice(["vo", "vq", "vr"])
                self.used_vars.add(var)
                out.append([a["name"], {"t": "var", "n": var}])
                continue
            if named_of(a["type"]) == "In":
                v = self.obj_lit(2)
                if a["type"][0] == "L":
                    v = {"t": "l", "v": [self.obj_lit(1) for _ in range(rnd.randint(0, 2))]} if rnd.random() < 0.7 else v      # a single object is coerced to a list
                elif r2 < 0.1 and not nonnull:
                    v = {"t": "null"}
                out.append([a["name"], v])
                continue
            if a["type"][0] == "L" and r2 < 0.35:
                # a list variable as the whole argument: vm ([Int!]) fits both, vl ([Int]) only nullable items
                var = rnd.choice(["vm"] + ([] if a["type"][1][0] == "NN" else ["vl"]))
                self.used_vars.add(var)
                out.append([a["name"], {"t": "var", "n": var}])
                continue
            if a["type"][0] == "L":
                # a list literal whose items are integers, nulls (nullable items only) or variables of a compatible type
                item_nn = a["type"][1][0] == "NN"
                items = []
                for _ in range(rnd.randint(0, 3)):
                    r3 = rnd.random()
                    if r3 < 0.5:
                        items.append({"t": "i", "v": rnd.randint(0, 9)})
                    elif r3 < 0.65 and not item_nn:
                        items.append({"t": "null"})
                    else:
                        var = rnd.choice(["vn", "vd"] + ([] if item_nn else ["vi"]))
                        self.used_vars.add(var)
                        items.append({"t": "var", "n": var})
                out.append([a["name"], {"t": "l", "v": items}])
                continue
            if r2 < 0.5:
                out.append([a["name"], {"t": "i", "v": rnd.randint(0, 9)}])
            elif r2 < 0.62 and not nonnull:
                out.append([a["name"], {"t": "null"}])
            else:
                # a variable of a compatible type: nullable position accepts any Int variable; a non-null position
                # accepts vn (Int!), or vd (Int with default)  -- and vi only when the argument has a default
                cands = ["vn", "vd"] + (["vi"] if (not nonnull or a["hasDefault"]) else [])
                var = rnd.choice(cands)
                self.used_vars.add(var)
                out.append([a["name"], {"t": "var", "n": var}])
        return out

    def obj_lit(self, depth):
        """an object literal of the input type In that validation accepts: r is required, b (non-null with a default) may be
        left out or given as a nullable variable, every field may be a variable of a compatible type"""
        rnd = self.rnd
        kv = []

        def int_or_var(nonnull, has_default):
            r = rnd.random()
            if r < 0.5:
                return {"t": "i", "v": rnd.randint(0, 9)}
            if r < 0.6 and not nonnull:
                return {"t": "null"}
            var = rnd.choice(["vn", "vd"] + (["vi"] if (not nonnull or has_default) else []))
            self.used_vars.add(var)
            return {"t": "var", "n": var}
        if rnd.random() < 0.6:
            kv.append(["a", int_or_var(False, False)])
        kv.append(["r", int_or_var(True, False)])
        if rnd.random() < 0.6:
            kv.append(["b", int_or_var(True, True)])
        if depth > 0 and rnd.random() < 0.3:
            kv.append(["c", self.obj_lit(depth - 1) if rnd.random() < 0.8 else {"t": "null"}])
        if rnd.random() < 0.3:
            kv.append(["l", {"t": "l", "v": [{"t": "i", "v": rnd.randint(0, 9)} for _ in range(rnd.randint(0, 2))]} if rnd.random() < 0.7
                       else {"t": "var", "n": self.use("vm")}])
        rnd.shuffle(kv)
        return {"t": "o", "kv": kv}

    def use(self, var):
        self.used_vars.add(var)
        return var

    def sel(self, tn, depth, in_frag=None):
        rnd = self.rnd
        d = TYPES[tn]
        sels = []
        for _ in range(rnd.randint(1, 4)):
            r = rnd.random()
            if r < 0.15:
                on = rnd.choice([c for c in ["", "A", "B", "I", "U", tn] if c == "" or compatible(c, tn)])
                target = on or tn
                if target in ("Int", "String", "Boolean"):
                    continue
                inner = self.sel(target, depth - 1) if depth > 0 and TYPES[target]["kind"] != "UNION" else [self.typename()]
                sels.append({"k": "I", "on": on, "dirs": self.dirs(), "sel": inner})
            elif r < 0.25 and depth > 0:
                # named fragment (possibly reused; may spread itself through another one -> cycles are broken by visited)
                usable = [n for n, fr in self.frags.items() if n not in self.open_frags and compatible(fr["on"], tn)]
                if usable and rnd.random() < 0.5:
                    name = rnd.choice(usable)
                else:
                    name = "F%d" % len(self.frags)
                    on = rnd.choice([c for c in [tn, tn, "A", "I", "U", "B"] if compatible(c, tn)])
                    self.frags[name] = {"on": on, "sel": []}
                    self.open_frags.add(name)
                    target = on
                    self.frags[name]["sel"] = self.sel(target, depth - 1) if TYPES[target]["kind"] != "UNION" else [self.typename()]
                    self.open_frags.discard(name)
                sels.append({"k": "S", "name": name, "dirs": self.dirs()})
            elif r < 0.32 or not d["fields"]:
                sels.append(self.typename())
            else:
                f = rnd.choice(list(d["fields"]))
                fd = d["fields"][f]
                t = fd["type"]
                while t[0] != "N":
                    t = t[1]
                leaf = TYPES[t[1]]["kind"] == "SCALAR"
                if not leaf and depth <= 0:
                    continue
                alias = rnd.choice(["", "", "", f + "1", f + "2"])
                # fields sharing a response key must have identical arguments to be mergeable
                akey = (tn if d["kind"] == "OBJECT" else "*", alias or f)
                if akey not in self.argcache:
                    self.argcache[akey] = self.args(fd)
                sels.append({"k": "F", "alias": alias, "name": f, "args": self.argcache[akey], "dirs": self.dirs(),
                             "sel": [] if leaf else self.sel(t[1], depth - 1)})
                if not leaf and rnd.random() < 0.2:
                    # the same field again under the same response key with another sub-selection (merged field group)
                    sels.append({"k": "F", "alias": alias, "name": f, "args": self.argcache[akey], "dirs": [],
                                 "sel": self.sel(t[1], depth - 1)})
        return sels or [self.typename()]

    def typename(self):
        return {"k": "F", "alias": self.rnd.choice(["", "tn"]), "name": "__typename", "args": [], "dirs": [], "sel": []}


def gen_conforming_obj(rnd, tn, depth):
    """data that conforms to the schema: no raising resolver, no ill-typed value, null only at nullable positions,
    runtime types that are possible for the abstract type"""
    def oc(t, d, nullable=True):
        if t[0] == "NN":
            return oc(t[1], d, False)
        if nullable and rnd.random() < 0.15:
            return {"t": "null"}
        if t[0] == "L":
            return {"t": "l", "v": [oc(t[1], d) for _ in range(rnd.randint(0, 3))]}
        dd = TYPES[t[1]]
        if dd["kind"] == "SCALAR":
            if t[1] == "Int":
                return {"t": "v", "v": {"t": "i", "v": rnd.randint(0, 9)}}
            if t[1] == "Boolean":
                return {"t": "v", "v": {"t": "b", "v": rnd.random() < 0.5}}
            return {"t": "v", "v": {"t": "s", "v": "s%d" % rnd.randint(0, 9)}}
        rt = t[1] if dd["kind"] == "OBJECT" else rnd.choice(dd["possible"])
        if d <= 0:
            # an object must still be complete: build it without composite children where possible
            return {"t": "o", "type": rt, "f": {f: oc(fd["type"], -1) if named_of(fd["type"]) in ("Int", "String", "Boolean") else
                                               ({"t": "null"} if fd["type"][0] != "NN" else oc(fd["type"], d - 1)) for f, fd in TYPES[rt]["fields"].items()}} if d > -3 else {"t": "null"}
        return {"t": "o", "type": rt, "f": {f: oc(fd["type"], d - 1) for f, fd in TYPES[rt]["fields"].items()}}
    return {"t": "o", "type": tn, "f": {f: oc(fd["type"], depth - 1) for f, fd in TYPES[tn]["fields"].items()}}


def doc_field_names(doc):
    """field names selected anywhere in the document (+ x, which the C13 mutants add)"""
    names = {"x"}

    def walk(sels):
        for sl in sels:
            if sl["k"] == "F":
                names.add(sl["name"])
            if "sel" in sl:
                walk(sl["sel"])
    walk(doc["sel"])
    for fr in doc["frags"].values():
        walk(fr["sel"])
    return names


def prune(oc, names):
    """drop the object fields no selection of the document can reach (keeps the records small)"""
    if oc["t"] == "l":
        return {"t": "l", "v": [prune(x, names) for x in oc["v"]]}
    if oc["t"] == "o":
        return {**{k: v for k, v in oc.items() if k == "reject"}, "t": "o", "type": oc["type"], "f": {f: prune(v, names) for f, v in oc["f"].items() if f in names}}
    return oc


LIST_FIELDS = {"l", "ln", "li", "lli", "lu", "lin", "la", "lb"}


def var_value(rnd, t):
    """a provided variable value the variable's type accepts (lists: a list, or a single value that coercion wraps)"""
    if t[0] == "NN":
        return var_value(rnd, t[1])
    if t[0] == "L":
        if rnd.random() < 0.3:
            return var_value(rnd, N(named_of(t)))
        item_nn = t[1][0] == "NN"
        return {"t": "l", "v": [{"t": "null"} if (not item_nn and rnd.random() < 0.2) else var_value(rnd, t[1]) for _ in range(rnd.randint(0, 3))]}
    if t[1] == "In":
        return in_value(rnd, 0)
    return {"t": "b", "v": rnd.random() < 0.5} if t[1] == "Boolean" else {"t": "i", "v": rnd.randint(0, 9)}


def in_value(rnd, depth):
    """a map for the input object type In { a: Int  b: Int! = 5  c: In  l: [Int!]  r: Int! }: mostly acceptable; explicit nulls,
    missing fields, a single value for the list; rarely a null for b / r, a missing r or an unknown key (request errors)"""
    kv = []
    r = rnd.random()
    if r < 0.6:
        kv.append(["a", {"t": "null"} if rnd.random() < 0.3 else {"t": "i", "v": rnd.randint(0, 9)}])
    r = rnd.random()
    if r < 0.4:
        kv.append(["b", {"t": "i", "v": rnd.randint(0, 9)}])
    elif r < 0.46:
        kv.append(["b", {"t": "null"}])                      # null for Int! = 5: an error, not the default
    if depth < 2 and rnd.random() < 0.4:
        kv.append(["c", {"t": "null"} if rnd.random() < 0.3 else in_value(rnd, depth + 1)])
    r = rnd.random()
    if r < 0.3:
        kv.append(["l", {"t": "l", "v": [{"t": "i", "v": rnd.randint(0, 9)} for _ in range(rnd.randint(0, 2))]}])
    elif r < 0.4:
        kv.append(["l", {"t": "i", "v": 3}])                  # a single value is wrapped
    elif r < 0.5:
        kv.append(["l", {"t": "null"}])
    r = rnd.random()
    if r < 0.93:
        kv.append(["r", {"t": "i", "v": rnd.randint(0, 9)}])
    elif r < 0.96:
        kv.append(["r", {"t": "null"}])
    if rnd.random() < 0.03:
        kv.append(["zzz", {"t": "i", "v": 1}])
    rnd.shuffle(kv)
    return {"t": "o", "kv": kv}


def gen_case(seed, depth=3, op="query"):
    rnd = random.Random(seed)
    g = DocGen(rnd)
    root_type = "Query" if op == "query" else "Mutation"
    sel = g.sel(root_type, depth)
    vardefs = [{"name": n, "type": t, "hasDefault": dflt is not None, "default": ival(dflt)} for n, t, dflt in VARDEFS if n in g.used_vars]
    variables = {}
    for vd in vardefs:
        r = rnd.random()
        nonnull = vd["type"][0] == "NN"
        isbool = named_of(vd["type"]) == "Boolean"
        if r < 0.25 and (vd["hasDefault"] or not nonnull or rnd.random() < 0.1):
            continue      # not provided (rarely also for a required one -> request error)
        if r < 0.33 and (not nonnull or rnd.random() < 0.1):
            variables[vd["name"]] = {"t": "null"}
        else:
            variables[vd["name"]] = var_value(rnd, vd["type"])
    doc = {"sel": sel, "frags": g.frags or {"_": {"on": "Query", "sel": []}}, "vardefs": vardefs}
    root = prune(gen_obj(rnd, root_type, depth), doc_field_names(doc))
    return {"schema": ABS if op == "query" else ABS_MUTATION, "doc": doc,
            "vars": variables or {"_": {"t": "null"}}, "root": root}


# ---------------------------------------------------------------------------------------------
# rendering

def gen_subscription_case(seed, depth=2):
    """A subscription operation (exactly one root field) and a sequence of source events."""
    rnd = random.Random(seed)
    g = DocGen(rnd)
    f = rnd.choice(list(TYPES["Subscription"]["fields"]))
    fd = TYPES["Subscription"]["fields"][f]
    tn = named_of(fd["type"])
    leaf = TYPES[tn]["kind"] == "SCALAR"
    root_field = {"k": "F", "alias": rnd.choice(["", "sub"]), "name": f, "args": g.args(fd), "dirs": [],
                  "sel": [] if leaf else g.sel(tn, depth)}
    vardefs = [{"name": n, "type": t, "hasDefault": dflt is not None, "default": ival(dflt)} for n, t, dflt in VARDEFS if n in g.used_vars]
    variables = {}
    for vd in vardefs:
        isbool = named_of(vd["type"]) == "Boolean"
        if vd["hasDefault"] and rnd.random() < 0.4:
            continue
        if vd["type"][0] != "NN" and rnd.random() < 0.2:
            continue
        variables[vd["name"]] = var_value(rnd, vd["type"])
    # a switched-off @stream on list fields (a disabled directive must behave as if it were absent - also in subscriptions)
    def switch_off(sels):
        for sl in sels:
            if sl["k"] == "F" and sl["name"] in LIST_FIELDS and rnd.random() < 0.5:
                sl["raw"] = rnd.choice([" @stream(if: false)", " @stream(if: false, initialCount: 1)", ' @stream(label: "s", if: false)'])
            if "sel" in sl:
                switch_off(sl["sel"])
    switch_off([root_field])
    for fr in g.frags.values():
        switch_off(fr["sel"])
    # @defer below the root field, switched by a literal false or by a Boolean! variable (what validation admits on a
    # subscription): an active one is answered with a field error at every object position whose selection meets it -
    # at every item of a list alike
    if seed % 3 == 0:
        def defer_some(sels, top):
            for k, sl in enumerate(sels):
                if sl["k"] in ("I", "S") and not top and rnd.random() < 0.5 and not any(d["d"] == "defer" for d in sl["dirs"]):
                    r = rnd.random()
                    if r < 0.25:
                        sl["dirs"] = sl["dirs"] + [{"d": "defer", "v": {"lit": False}}]
                    else:
                        v = rnd.choice(["vt", "vt", "vf", "vb"])
                        sl["dirs"] = sl["dirs"] + [{"d": "defer", "v": {"var": v}}]
                        if not any(x["name"] == v for x in vardefs):
                            n_, t_, dflt = next(x for x in VARDEFS if x[0] == v)
                            vardefs.append({"name": n_, "type": t_, "hasDefault": dflt is not None, "default": ival(dflt)})
                            if dflt is None or rnd.random() < 0.5:
                                variables[v] = var_value(rnd, t_)
                elif sl["k"] == "F" and sl["sel"] and not top and rnd.random() < 0.35:
                    # wrap a part of the sub-selection into a deferred inline fragment
                    cut = rnd.randrange(len(sl["sel"]))
                    v = rnd.choice(["vt", "vb", "vf"])
                    sl["sel"] = sl["sel"][:cut] + [{"k": "I", "on": "", "dirs": [{"d": "defer", "v": {"var": v}}], "sel": sl["sel"][cut:]}]
                    if not any(x["name"] == v for x in vardefs):
                        n_, t_, dflt = next(x for x in VARDEFS if x[0] == v)
                        vardefs.append({"name": n_, "type": t_, "hasDefault": dflt is not None, "default": ival(dflt)})
                        if dflt is None or rnd.random() < 0.5:
                            variables[v] = var_value(rnd, t_)
                if sl["k"] in ("F", "I") and sl.get("sel"):
                    defer_some(sl["sel"], False)
        defer_some(root_field["sel"], False)
        for fr in g.frags.values():
            defer_some(fr["sel"], False)
    doc = {"sel": [root_field], "frags": g.frags or {"_": {"on": "Query", "sel": []}}, "vardefs": vardefs}
    names = doc_field_names(doc)
    events = [prune(gen_obj(rnd, "Subscription", depth), names) for _ in range(rnd.choice([0, 1, 2, 3, 4]))]
    return {"schema": ABS_SUBSCRIPTION, "doc": doc,
            "vars": variables or {"_": {"t": "null"}}, "events": events}


def render_sel(sels):
    out = []
    for s in sels:
        dirs = "".join(f" @{d['d']}(if: {('true' if d['v']['lit'] else 'false') if 'lit' in d['v'] else '$' + d['v']['var']})" for d in s["dirs"])
        if s["k"] == "F":
            args = ""
            if s["args"]:
                args = "(" + ", ".join(f"{n}: {lit(v)}" for n, v in s["args"]) + ")"
            # "raw": directives that are switched off (e.g. @stream(if: false)) - to the specification the field is as without them
            out.append((s["alias"] + ": " if s["alias"] else "") + s["name"] + args + dirs + s.get("raw", "") + (" { " + render_sel(s["sel"]) + " }" if s["sel"] else ""))
        elif s["k"] == "I":
            out.append("..." + (" on " + s["on"] if s["on"] else "") + dirs + " { " + render_sel(s["sel"]) + " }")
        else:
            out.append("..." + s["name"] + dirs)
    return " ".join(out)


def render_doc(case, op="query"):
    doc = case["doc"]
    head = op + " Q"
    if doc["vardefs"]:
        head += "(" + ", ".join("$" + v["name"] + ": " + tstr(v["type"]) + (" = " + lit(v["default"]) if v["hasDefault"] else "") for v in doc["vardefs"]) + ")"
    text = head + " { " + render_sel(doc["sel"]) + " }"
    for n, f in doc["frags"].items():
        if n == "_":
            continue
        text += f" fragment {n} on {f['on']} {{ {render_sel(f['sel'])} }}"
    return text


def render_vars(case):
    out = {}
    for n, v in case["vars"].items():
        if n == "_":
            continue
        out[n] = plain(v)
    return out


def plain(v):
    if v["t"] == "null":
        return None
    if v["t"] == "l":
        return [plain(x) for x in v["v"]]
    if v["t"] == "o":
        return {k: plain(x) for k, x in v["kv"]}
    return v["v"]


class Boom(Exception):
    pass


class Obj(dict):
    pass


BAD = object()


def to_py(oc):
    """outcome tree -> Python data interpreted by `make_resolver`"""
    if oc["t"] == "null":
        return None
    if oc["t"] == "err":
        return Boom
    if oc["t"] == "bad":
        return BAD
    if oc["t"] == "v":
        return oc["v"]["v"]
    if oc["t"] == "l":
        return [to_py(i) for i in oc["v"]]
    d = Obj({f: to_py(v) for f, v in oc["f"].items()})
    d.typename = oc["type"]
    d.reject = bool(oc.get("reject"))
    return d


def enc_args(args: dict):
    return [[k, ival(v)] for k, v in args.items()]


def make_type_resolver(wrap=None):
    def resolve(value, info, abstract_type):
        tn = getattr(value, "typename", None)
        if wrap is not None:
            return wrap("type:" + "/".join(map(str, info.path.as_list())), lambda: tn)
        return tn
    return resolve


ROOT_MISMATCH = []


def make_resolver(calls, wrap=None):
    """Generic field resolver over to_py data; logs (path, args). `wrap(key, thunk)` lets C03 turn any resolver
    result into an awaitable."""
    def resolver(source, info, **args):
        path = info.path.as_list()
        calls.append({"path": wire.enc_path(path), "args": enc_args(args)})
        if len(path) == 1 and info.root_value is not source:
            ROOT_MISMATCH.append(path)          # a root field's resolver sees a root value that is not the value it resolves on
        v = source.get(info.field_name) if isinstance(source, dict) else None

        def produce():
            if v is Boom:
                raise Boom("resolver failed at " + "/".join(map(str, path)))
            if isinstance(v, list):
                return [Boom("item failed") if x is Boom else x for x in v]
            return v
        if wrap is not None:
            return wrap("/".join(map(str, path)), produce)
        return produce()
    return resolver


def type_resolver(value, info, abstract_type):
    return getattr(value, "typename", None)


def enc_response(res):
    fm = res.formatted
    errs = [wire.enc_path(e.get("path") or []) for e in fm.get("errors", []) or []]
    return {"data": wire.enc_value(fm.get("data")), "errors": errs, "requestError": res.data is None and bool(res.errors) and all(not e.get("path") for e in fm["errors"])}
