"""C20 - schema validation reports every type-system violation and never crashes.

P-spec: SchemaValid.tla - the specification's type-system rules, one named predicate per rule.
G/V: valid abstract schemas from the generator and all single (and sampled double) rule-violating mutations of
them - each mutation operator is the negation of one guard of the generator - rendered as SDL (built with and
without the SDL pre-validation) and programmatically. A schema that cannot be constructed (constructor or
build_schema raises) is outside the statement and is skipped (counted).
Verdict clauses: (1) validate_schema returns a list and never raises; (2) the list is empty exactly when
SchemaValid holds for the abstract schema (TLC, SchemaV.tla); (3) a request against an invalid schema returns
those errors, no data, runs no resolver and does not raise.
"""
from __future__ import annotations

import copy
import random

from . import common, gen_schema as gs
from .common import Evidence, Verdicts, run_tlc, pmap, seed

PROP = "C20"


def objs(S, kinds):
    return [t for t in S["types"] if t["kind"] in kinds]


def m_empty_type(S, rnd):
    t = rnd.choice(S["types"])
    if t["kind"] in ("OBJECT", "INTERFACE"):
        t["fields"] = []
    elif t["kind"] == "UNION":
        t["members"] = []
    elif t["kind"] == "ENUM":
        t["values"] = []
    elif t["kind"] == "INPUT_OBJECT":
        t["inputFields"] = []
    else:
        return None
    return "empty-type"


def m_input_in_output(S, rnd):
    ios = objs(S, ["INPUT_OBJECT"])
    hosts = objs(S, ["OBJECT", "INTERFACE"])
    if not ios or not hosts:
        return None
    f = rnd.choice(rnd.choice(hosts)["fields"] or [None])
    if f is None:
        return None
    f["type"] = ["N", rnd.choice(ios)["name"]]
    return "input-type-in-output-position"


def all_input_values(S):
    out = []
    for t in S["types"]:
        for f in t["fields"]:
            out += [(a, "arg") for a in f["args"]]
        out += [(f, "input-field") for f in t["inputFields"]]
    for d in S["directives"]:
        out += [(a, "arg") for a in d["args"]]
    return out


def m_output_in_input(S, rnd):
    ivs = all_input_values(S)
    outs = objs(S, ["OBJECT", "INTERFACE", "UNION"])
    if not ivs or not outs:
        return None
    iv, _ = rnd.choice(ivs)
    iv["type"] = rnd.choice([["N", rnd.choice(outs)["name"]], ["L", ["N", rnd.choice(outs)["name"]]], ["NN", ["N", rnd.choice(outs)["name"]]]])
    if rnd.random() < 0.6:      # with a default value on it
        iv["hasDefault"], iv["default"] = True, rnd.choice([{"t": "i", "v": 1}, {"t": "null"}, {"t": "o", "kv": []}, {"t": "l", "v": []}])
        if iv["default"]["t"] == "null" and iv["type"][0] == "NN":
            iv["default"] = {"t": "i", "v": 1}
    return "output-type-in-input-position"


def m_bad_default(S, rnd):
    ivs = [x for x in all_input_values(S)]
    if not ivs:
        return None
    iv, _ = rnd.choice(ivs)
    base = gs.named(iv["type"])
    wrong = {"Int": {"t": "s", "v": [120]}, "Float": {"t": "s", "v": [120]}, "String": {"t": "i", "v": 1}, "Boolean": {"t": "i", "v": 1}, "ID": {"t": "b", "v": True}}
    bad = wrong.get(base)
    if bad is None:
        kind = next((t["kind"] for t in S["types"] if t["name"] == base), None)
        if kind == "ENUM":
            # (a string spelling an existing value name would be a valid *external* value on the programmatic route)
            bad = rnd.choice([{"t": "e", "v": "NOPE"}, {"t": "s", "v": [78, 79, 80, 69]}, {"t": "i", "v": 0}])
        elif kind == "INPUT_OBJECT":
            bad = rnd.choice([{"t": "o", "kv": [["nope", {"t": "i", "v": 1}]]}, {"t": "i", "v": 1}, {"t": "s", "v": [120]}])
        else:
            return None
    r = rnd.random()
    if r < 0.3 and iv["type"][0] == "NN":
        bad = {"t": "null"}
    elif r < 0.5 and iv["type"][0] == "L":
        bad = {"t": "l", "v": [bad]}
    iv["hasDefault"], iv["default"] = True, bad
    if iv["deprecation"] is None or True:
        pass
    return "invalid-default"


def m_iface(S, rnd, k=None):
    impls = [t for t in objs(S, ["OBJECT", "INTERFACE"]) if t["interfaces"]]
    if not impls:
        return None
    t = rnd.choice(impls)
    iname = rnd.choice(t["interfaces"])
    it = next(x for x in S["types"] if x["name"] == iname)
    if not it["fields"]:
        return None
    f = rnd.choice(it["fields"])
    g = next((x for x in t["fields"] if x["name"] == f["name"]), None)
    if g is None:
        return None
    k = k or rnd.choice(["missing", "type", "arg-missing", "arg-type", "extra-required", "deprecated"])
    if k in ("arg-missing", "arg-type") and not g["args"]:
        # pick a field that has arguments, if the interface has one
        withargs = [x for x in it["fields"] if x["args"] and any(y["name"] == x["name"] for y in t["fields"])]
        if not withargs:
            return None
        f = rnd.choice(withargs)
        g = next(x for x in t["fields"] if x["name"] == f["name"])
    if k == "missing":
        t["fields"] = [x for x in t["fields"] if x["name"] != f["name"]]
        if not t["fields"]:
            return None
    elif k == "type":
        g["type"] = ["N", "Int"] if gs.named(f["type"]) != "Int" else ["N", "String"]
    elif k == "arg-missing":
        if not f["args"]:
            return None
        g["args"] = g["args"][1:]
    elif k == "arg-type":
        if not g["args"]:
            return None
        a = g["args"][0]
        if a["type"][0] in ("L", "NN") and rnd.random() < 0.6:
            # same depth, another kind of wrapper: [T] <-> T!
            a["type"] = ["NN" if a["type"][0] == "L" else "L", a["type"][1]]
            if a["type"][0] == "NN" and a["type"][1][0] == "NN":
                a["type"] = ["L", a["type"][1]]
        else:
            a["type"] = ["L", a["type"]] if a["type"][0] != "L" else a["type"][1]
        a["hasDefault"], a["default"] = False, {"t": "null"}
        a["deprecation"] = None
    elif k == "extra-required":
        g["args"] = g["args"] + [{"name": "extraReq", "type": ["NN", ["N", "Int"]], "description": None, "deprecation": None, "hasDefault": False, "default": {"t": "null"}}]
    else:
        if f["deprecation"] is not None:
            return None
        g["deprecation"] = "old"
    return "interface-" + k


def m_union(S, rnd):
    us = objs(S, ["UNION"])
    if not us:
        return None
    u = rnd.choice(us)
    others = [t["name"] for t in S["types"] if t["kind"] in ("INTERFACE", "SCALAR", "ENUM", "INPUT_OBJECT", "UNION") and t["name"] != u["name"]]
    if not others:
        return None
    u["members"] = u["members"] + [rnd.choice(others)]
    return "union-non-object-member"


def m_reserved(S, rnd):
    t = rnd.choice(S["types"])
    k = rnd.choice(["type", "field", "arg", "value"])
    if k == "type":
        old = t["name"]
        new = "__" + old
        gen = gs.Gen(0)
        gen.types = S["types"]
        gen.rename({old: new})
        for r in ("query", "mutation", "subscription"):
            if S[r] == old:
                S[r] = new
    elif k == "field" and t["fields"] and not t["interfaces"] and t["kind"] == "OBJECT":
        t["fields"][-1]["name"] = "__hidden"
    elif k == "arg":
        cands = [a for f in t["fields"] for a in f["args"]]
        if not cands or t["interfaces"] or t["kind"] != "OBJECT":
            return None
        cands[0]["name"] = "__arg"
    elif k == "value" and t["values"]:
        t["values"][0]["name"] = "__V"
    else:
        return None
    return "reserved-name"


def m_cycle(S, rnd):
    ios = objs(S, ["INPUT_OBJECT"])
    ios = [t for t in ios if not t["oneOf"]]
    if not ios:
        return None
    a = rnd.choice(ios)
    b = rnd.choice(ios)
    a["inputFields"].append({"name": "cyc", "type": ["NN", ["N", b["name"]]], "description": None, "deprecation": None, "hasDefault": False, "default": {"t": "null"}})
    if b is not a:
        b["inputFields"].append({"name": "cyc", "type": ["NN", ["N", a["name"]]], "description": None, "deprecation": None, "hasDefault": False, "default": {"t": "null"}})
    return "input-cycle"


def m_default_cycle(S, rnd):
    """Default values that refer back to the field they belong to: directly, through another input object, through a
    list, through a value given for a field of a OneOf input object. Every default is a valid value of its type."""
    def io(name, fields, one_of=False):
        return {"kind": "INPUT_OBJECT", "name": name, "description": None, "specifiedBy": None, "fields": [], "interfaces": [], "members": [],
                "values": [], "oneOf": one_of,
                "inputFields": [{"name": n, "type": t, "description": None, "deprecation": None, "hasDefault": d is not None,
                                 "default": d if d is not None else {"t": "null"}} for n, t, d in fields]}
    O = lambda kv: {"t": "o", "kv": kv}     # noqa: E731
    Nm = lambda n: ["N", n]                # noqa: E731
    if any(t["name"].startswith("Cyc") for t in S["types"]):
        return None
    shape = rnd.choice(["self", "two", "list", "oneof", "oneof-list", "nested-value", "nonnull"])
    if shape == "self":
        new = [io("CycA", [("a", Nm("CycA"), O([])), ("n", Nm("Int"), None)])]
    elif shape == "two":
        new = [io("CycA", [("n", Nm("Int"), None), ("b", Nm("CycB"), O([]))]), io("CycB", [("a", Nm("CycA"), O([]))])]
    elif shape == "list":
        new = [io("CycA", [("l", ["L", Nm("CycA")], {"t": "l", "v": [O([])]})])]
    elif shape == "oneof":
        new = [io("CycA", [("o", Nm("CycO"), O([["a", O([])]]))]), io("CycO", [("a", Nm("CycA"), None), ("n", Nm("Int"), None)], True)]
    elif shape == "oneof-list":
        new = [io("CycA", [("o", Nm("CycO"), O([["l", {"t": "l", "v": [O([])]}]]))]), io("CycO", [("n", Nm("Int"), None), ("l", ["L", Nm("CycA")], None)], True)]
    elif shape == "nested-value":
        # the default gives a value for b, and inside that value a is left to its default again
        new = [io("CycA", [("b", Nm("CycB"), O([["n", {"t": "i", "v": 1}]])), ("n", Nm("Int"), None)]),
               io("CycB", [("n", Nm("Int"), None), ("a", Nm("CycA"), O([["n", {"t": "i", "v": 2}]]))])]
    else:
        new = [io("CycA", [("b", ["NN", Nm("CycB")], O([]))]), io("CycB", [("a", ["NN", ["L", ["NN", Nm("CycA")]]], {"t": "l", "v": [O([])]})])]
    S["types"] += new
    return "default-value-cycle"


def m_oneof(S, rnd):
    ios = [t for t in objs(S, ["INPUT_OBJECT"]) if t["inputFields"]]
    if not ios:
        return None
    t = rnd.choice(ios)
    t["oneOf"] = True
    f = t["inputFields"][0]
    if rnd.random() < 0.5:
        f["type"] = ["NN", f["type"]] if f["type"][0] != "NN" else f["type"]
        f["hasDefault"], f["default"] = False, {"t": "null"}
        f["deprecation"] = None
        for g in t["inputFields"][1:]:
            if g["type"][0] == "NN":
                g["type"] = g["type"][1]
            g["hasDefault"], g["default"] = False, {"t": "null"}
    else:
        for g in t["inputFields"]:
            if g["type"][0] == "NN":
                g["type"] = g["type"][1]
        f["hasDefault"], f["default"] = True, {"t": "null"}
    return "oneof-restriction"


def m_deprecated_required(S, rnd):
    ivs = [iv for iv, _ in all_input_values(S)]
    if not ivs:
        return None
    iv = rnd.choice(ivs)
    if iv["type"][0] != "NN":
        iv["type"] = ["NN", iv["type"]]
    iv["hasDefault"], iv["default"] = False, {"t": "null"}
    iv["deprecation"] = rnd.choice(["old", "", "", "No longer supported"])         # the empty reason deprecates as well
    return "required-deprecated"


def m_roots(S, rnd):
    k = rnd.choice(["same", "non-object"])
    if k == "same":
        S["mutation"] = S["query"]
    else:
        others = [t["name"] for t in S["types"] if t["kind"] in ("INTERFACE", "ENUM", "INPUT_OBJECT", "SCALAR", "UNION")]
        if not others:
            return None
        S[rnd.choice(["mutation", "subscription"])] = rnd.choice(others)
    return "roots-" + k


def m_implements(S, rnd):
    hosts = objs(S, ["OBJECT", "INTERFACE"])
    t = rnd.choice(hosts)
    k = rnd.choice(["non-interface", "itself", "transitive"])
    if k == "non-interface":
        others = [x["name"] for x in S["types"] if x["kind"] in ("OBJECT", "ENUM", "SCALAR") and x["name"] != t["name"]]
        if not others:
            return None
        t["interfaces"] = t["interfaces"] + [rnd.choice(others)]
    elif k == "itself":
        if t["kind"] != "INTERFACE":
            return None
        t["interfaces"] = t["interfaces"] + [t["name"]]
    else:
        multi = [x for x in hosts if len(x["interfaces"]) >= 2]
        if not multi:
            return None
        x = rnd.choice(multi)
        # drop an interface that another of its interfaces implements
        for i in x["interfaces"]:
            it = next(y for y in S["types"] if y["name"] == i)
            if it["interfaces"]:
                x["interfaces"] = [j for j in x["interfaces"] if j != it["interfaces"][0]]
                return "implements-transitive"
        return None
    return "implements-" + k


def _iface(k):
    def m(S, rnd):
        return m_iface(S, rnd, k)
    return m


def m_redefined_directive(S, rnd):
    """a directive that carries the name of a specified directive (the name is not reserved) and breaks a directive rule"""
    import copy
    d = copy.deepcopy(rnd.choice([x for x in gs.REDEFINED if x["args"]]))
    outs = objs(S, ["OBJECT", "INTERFACE", "UNION"])
    k = rnd.choice(["output-type", "reserved-arg", "bad-default"])
    a = d["args"][0]
    if k == "output-type" and outs:
        a["type"] = ["N", rnd.choice(outs)["name"]]
    elif k == "reserved-arg":
        a["name"] = "__" + a["name"]
    else:
        a["type"] = ["N", "Boolean"]
        a["hasDefault"], a["default"] = True, {"t": "s", "v": [ord(c) for c in "yes"]}
    if any(x["name"] == d["name"] for x in S["directives"]):
        return None
    S["directives"].append(d)
    return "redefined-specified-directive-invalid"


MUTATORS = [m_redefined_directive, _iface("arg-type"), _iface("arg-type"), _iface("type"), _iface("arg-missing"), _iface("extra-required"), m_empty_type, m_input_in_output, m_output_in_input, m_bad_default, m_iface, m_union, m_reserved, m_cycle, m_default_cycle, m_oneof,
            m_deprecated_required, m_roots, m_implements]


def _chunk(seeds):
    from graphql import build_schema, validate_schema, graphql_sync
    from graphql.type import GraphQLSchema
    out = []
    for sd in seeds:
        rnd = random.Random(sd)
        base = gs.gen_schema(sd)
        variants = [("valid", base)]
        for mut in MUTATORS:
            S = copy.deepcopy(base)
            try:
                name = mut(S, rnd)
            except Exception:  # noqa: BLE001
                name = None
            if name:
                variants.append((name, S))
        for _ in range(2):      # double mutations
            S = copy.deepcopy(base)
            names = []
            for mut in rnd.sample(MUTATORS, 2):
                try:
                    nm = mut(S, rnd)
                except Exception:  # noqa: BLE001
                    nm = None
                if nm:
                    names.append(nm)
            if len(names) == 2:
                variants.append(("+".join(names), S))
        for name, S in variants:
            builds = []
            try:
                sdl = gs.to_sdl(S)
            except Exception as e:  # noqa: BLE001
                out.append({"skipped": f"{name}: no SDL ({type(e).__name__})"})
                continue
            # the same schema written with extensions that add nothing but a directive application: every rule reads a type
            # together with its extensions (and blames their nodes)
            kw_of = {"OBJECT": "type", "INTERFACE": "interface", "UNION": "union", "ENUM": "enum", "INPUT_OBJECT": "input", "SCALAR": "scalar"}
            ext_types = [t for t in S["types"] if rnd.random() < 0.5 and not t["name"].startswith("__")]
            sdl_ext = sdl + "\ndirective @xnoop repeatable on OBJECT | INTERFACE | UNION | ENUM | INPUT_OBJECT | SCALAR\n" + \
                "".join(f"\nextend {kw_of[t['kind']]} {t['name']} @xnoop" for t in ext_types) if not any(d["name"] == "xnoop" for d in S["directives"]) else sdl
            for route in ("sdl", "sdl-assume-valid", "sdl-extended", "programmatic", "deepcopy"):
                try:
                    if route == "sdl":
                        s = build_schema(sdl)
                    elif route == "sdl-extended":
                        s = build_schema(sdl_ext, assume_valid_sdl=True)
                    elif route == "sdl-assume-valid":
                        s = build_schema(sdl, assume_valid_sdl=True)
                    elif route == "deepcopy":
                        # a copy of a schema that has not been validated yet is not known to be valid either
                        s = copy.deepcopy(build_schema(sdl, assume_valid_sdl=True) if sd % 2 else gs.to_objects(S))
                    else:
                        s = gs.to_objects(S)
                    builds.append((route, s))
                except Exception as e:  # noqa: BLE001
                    out.append({"skipped": f"{name}/{route}: not constructible ({type(e).__name__})"})
            for route, s in builds:
                rec = {"kind": "validity", "schema": gs.to_wire(gs.normalise(S)), "projections": [], "realErrors": 0,
                       "_meta": {"seed": sd, "mutation": name, "route": route, "sdl": sdl[:1500]}, "_viol": []}
                try:
                    errs = validate_schema(s)
                    if not isinstance(errs, list):
                        rec["_viol"].append(("validate_schema-does-not-return-a-list", type(errs).__name__))
                        errs = list(errs)
                    rec["realErrors"] = len(errs)
                    rec["_meta"]["messages"] = [e.message[:120] for e in errs][:4]
                except Exception as e:  # noqa: BLE001
                    rec["_viol"].append(("validate_schema-raises", f"{type(e).__name__}: {str(e)[:120]}"))
                    rec["realErrors"] = -1
                if rec["realErrors"] > 0:
                    called = []
                    try:
                        res = graphql_sync(s, "{ __typename }", field_resolver=lambda *a, **k: called.append(1))
                        if called:
                            rec["_viol"].append(("resolver-executed-on-invalid-schema", None))
                        if res.data is not None:
                            rec["_viol"].append(("data-returned-for-invalid-schema", None))
                        if not res.errors or [e.message for e in res.errors] != [e.message for e in errs]:
                            rec["_viol"].append(("request-errors-differ-from-validation-errors", [e.message[:80] for e in (res.errors or [])][:3]))
                    except Exception as e:  # noqa: BLE001
                        rec["_viol"].append(("request-on-invalid-schema-raises", f"{type(e).__name__}: {str(e)[:120]}"))
                out.append(rec)
    return out


def run(tier: str, rd):
    ev = Evidence(PROP, tier)
    vd = Verdicts(PROP)
    n = 120 if tier == "quick" else 1200
    base = seed() * 1000000 + 2000000
    recs = []
    for lst in pmap(_chunk, list(range(base, base + n)), chunk=4):
        recs += lst
    skipped = [r for r in recs if "skipped" in r]
    recs = [r for r in recs if "kind" in r]
    for r in recs:
        for clause, detail in r["_viol"]:
            m = r["_meta"]
            vd.violation(clause, m, detail, {"clause": clause, "mutation": m["mutation"].split("+")[0] if "+" not in m["mutation"] else "double"})
    judged = [r for r in recs if r["realErrors"] >= 0]
    hits = {}
    rules_seen = {}
    for bi in range(0, len(judged), 1500):
        batch = judged[bi:bi + 1500]
        payload = [{k: v for k, v in r.items() if not k.startswith("_")} for r in batch]
        p = common.write_cases(rd, f"valid{bi}.json", payload)
        r = run_tlc(rd, "SchemaV", common.v_cfg(), name=f"SchemaV{bi}", env={"CASES": str(p)}, timeout=3400, heap="20g")
        ev.add_tlc(f"V: {len(batch)} (abstract schema, number of real validation errors) vs SchemaValid.tla", r)
        for o in r.json_lines():
            rec = batch[o["viol"] - 1]
            hits[o["clause"]] = hits.get(o["clause"], 0) + 1
            m = rec["_meta"]
            vd.violation(o["clause"], m, {"spec_rules_violated": o.get("rules"), "real_errors": rec["realErrors"], "messages": m.get("messages")},
                         {"clause": o["clause"], "mutation": m["mutation"]})
    ev.traces += len(judged)
    by_mut = {}
    for r in recs:
        k = r["_meta"]["mutation"] if "+" not in r["_meta"]["mutation"] else "double"
        b = by_mut.setdefault(k, {"n": 0, "rejected": 0})
        b["n"] += 1
        b["rejected"] += r["realErrors"] != 0
        ev.case(None, nontrivial=r["_meta"]["mutation"] != "valid", key=f"{r['_meta']['seed']}|{r['_meta']['mutation']}|{r['_meta']['route']}")
    if recs:
        inv = next((r for r in recs if r["realErrors"] > 0), recs[0])
        ev.sample({"mutation": inv["_meta"]["mutation"], "route": inv["_meta"]["route"], "messages": inv["_meta"].get("messages"), "sdl": inv["_meta"]["sdl"][:400]})
    ev.extra.update({"base_schemas": n, "schemas_judged": len(judged), "not_constructible_skipped": len(skipped), "by_mutation": by_mut, "clause_hits": hits})
    ev.rule = ("valid generated schemas and every applicable single mutation (12 operators) plus 2 double mutations each, three construction routes; "
               "non-trivial = mutated schema")
    ev.assumptions = ["a schema whose constructor or build_schema raises is outside the statement", "only emptiness of the error list is compared with SchemaValid (per-rule mapping is not)"]
    rc = vd.finish()
    ev.write(vd)
    return rc


if __name__ == "__main__":
    common.main_wrapper(PROP, run)
