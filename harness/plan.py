"""Binding of Plan.tla (I-spec of the incremental executor's planning) to the real IncrementalExecutor, and the strict
reading of C04's "withheld" that needs the plan.

A document of the Plan domain is a node table (see spec/Plan.tla). Documents come from TLC (MCPlan.tla builds every one
with at most MaxNodes nodes and checks Partition / Antichain / Closed / Nested on it) and from a seeded generator for
larger ones. Each is rendered to a query over  type Query { x: Int y: Int nn: Int! o: Query p: Query }, executed with
a recording subclass of IncrementalExecutor (public executor_class option; no hook in the repository):
  * the delivery groups it creates (path, chain of labels, parent chain),
  * the execution groups it creates (path, delivery groups, response keys),
  * which executor executes which response key at which path,
and executed again with `nn` raising: the labels completed with errors and the leaves of the reference response that
the assembled response lacks. PlanV.tla compares the plan with PlanOf(doc) (MODEL-DRIFT) and evaluates LossExplained.
"""
from __future__ import annotations

import asyncio
import random

SDL = """
directive @defer(if: Boolean! = true, label: String) on FRAGMENT_SPREAD | INLINE_FRAGMENT
type Query { x: Int y: Int nn: Int! o: Query p: Query }
"""
_schema = None


def schema():
    global _schema
    if _schema is None:
        from graphql import build_schema
        _schema = build_schema(SDL)
    return _schema


def kids(doc, i):
    return [j + 1 for j, n in enumerate(doc) if n["parent"] == i and n["k"] != "D"]


def render_sel(doc, i):
    out = []
    for j in kids(doc, i):
        n = doc[j - 1]
        d = f' @defer(label: "{n["lab"]}")' if n["lab"] else ""
        if n["k"] == "F":
            out.append(n["key"] + (" { " + render_sel(doc, j) + " }" if n["key"] in ("o", "p") else ""))
        elif n["k"] == "I":
            out.append("..." + d + " { " + render_sel(doc, j) + " }")
        else:
            out.append("..." + n["frag"] + d)
    return " ".join(out)


def render(doc):
    text = "{ " + render_sel(doc, 0) + " }"
    for j, n in enumerate(doc):
        if n["k"] == "D":
            text += f' fragment {n["key"]} on Query {{ {render_sel(doc, j + 1)} }}'
    return text


def gen_doc(rnd, max_nodes=12):
    """pre-order construction like MCPlan's, with more keys and up to max_nodes nodes; returns None if the result is not
    a complete document"""
    doc = []
    n_target = rnd.randint(4, max_nodes)
    frags = []

    def spine():
        if not doc:
            return [0]
        out, i = [], len(doc)
        while i != 0:
            n = doc[i - 1]
            if n["k"] in ("I", "D") or (n["k"] == "F" and n["key"] in ("o", "p")):
                out.append(i)
            if n["k"] == "D":
                return out
            i = n["parent"]
        return out + [0]

    def root_of(i):
        while i != 0 and doc[i - 1]["k"] != "D":
            i = doc[i - 1]["parent"]
        return i
    while len(doc) < n_target:
        p = rnd.choice(spine()[:3])
        r = rnd.random()
        lab = f"L{len(doc) + 1}"
        if r < 0.45:
            doc.append({"k": "F", "parent": p, "key": rnd.choice(["x", "x", "y", "nn", "o", "o", "p"]), "lab": "", "frag": ""})
        elif r < 0.75:
            doc.append({"k": "I", "parent": p, "key": "", "lab": lab if rnd.random() < 0.75 else "", "frag": ""})
        elif r < 0.9:
            root = root_of(p)
            f = "F1" if root == 0 and rnd.random() < 0.6 else "F2"
            if root != 0 and doc[root - 1]["key"] != "F1":
                continue
            doc.append({"k": "S", "parent": p, "key": "", "lab": lab if rnd.random() < 0.6 else "", "frag": f})
        else:
            f = "F1" if "F1" not in frags else "F2"
            if f in frags or len(doc) == 0:
                continue
            frags.append(f)
            doc.append({"k": "D", "parent": 0, "key": f, "lab": "", "frag": ""})
    # completeness as in MCPlan.Complete: fill empty containers, define what is spread, spread what is defined
    used = {n["frag"] for n in doc if n["k"] == "S"}
    for f in sorted(used - {n["key"] for n in doc if n["k"] == "D"}):
        doc.append({"k": "D", "parent": 0, "key": f, "lab": "", "frag": ""})
    for n in list(doc):
        if n["k"] == "D" and n["key"] not in used:
            doc.append({"k": "S", "parent": 0, "key": "", "lab": f"L{len(doc) + 1}" if rnd.random() < 0.5 else "", "frag": n["key"]})
    for i, n in enumerate(list(doc)):
        if (n["k"] in ("I", "D") or (n["k"] == "F" and n["key"] in ("o", "p"))) and not kids(doc, i + 1):
            doc.append({"k": "F", "parent": i + 1, "key": rnd.choice(["x", "y", "nn"]), "lab": "", "frag": ""})
    if not kids(doc, 0) or not any(n["lab"] for n in doc):
        return None
    # no cycles: F2 must not spread F1 or itself, F1 must not spread itself
    for i, n in enumerate(doc):
        if n["k"] == "S":
            r = n["parent"]
            while r != 0 and doc[r - 1]["k"] != "D":
                r = doc[r - 1]["parent"]
            if r != 0 and not (doc[r - 1]["key"] == "F1" and n["frag"] == "F2"):
                return None
    return doc


def build(tree):
    """node table from nested tuples: ("o", [...]) field with selection, "x" leaf, ("@A", [...]) deferred inline fragment
    labelled A, ("...", [...]) plain inline fragment"""
    doc = []

    def add(items, parent):
        for it in items:
            if isinstance(it, str):
                doc.append({"k": "F", "parent": parent, "key": it, "lab": "", "frag": ""})
            else:
                head, sub = it
                if head.startswith("@"):
                    doc.append({"k": "I", "parent": parent, "key": "", "lab": head[1:], "frag": ""})
                elif head == "...":
                    doc.append({"k": "I", "parent": parent, "key": "", "lab": "", "frag": ""})
                else:
                    doc.append({"k": "F", "parent": parent, "key": head, "lab": "", "frag": ""})
                add(sub, len(doc))
    add(tree, 0)
    return doc


def shaped_docs():
    """hand-shaped documents: a leaf (or object) shared by a fragment that fails through nn and by other fragments -
    root-level siblings (which deliver it), fragments nested in a sibling that succeeds, in either order and depth"""
    A = ("@A", ["x", "nn"])
    out = [
        [("o", [A, ("@B", ["y", ("@C", ["x"])])])],
        [("o", [("@B", ["y", ("@C", ["x"])]), A])],
        [("o", [A, ("@B", ["x", "y"])])],
        [("o", [A, ("@B", ["y", ("@C", ["x"])]), ("@D", ["y", ("@E", ["x"])])])],
        [("o", [("@A", ["nn", ("o", ["x"])]), ("@B", ["y", ("@C", [("o", ["x"])])])])],
        [("o", [A, ("@B", ["y", ("@C", ["y", ("@D", ["x"])])])])],
        [("o", [A, ("@B", ["y", ("...", [("@C", ["x"])])])]), "y"],
        [("p", [("o", [A, ("@B", ["y", ("@C", ["x", "nn"])])])])],
        [("o", [("@A", ["x", ("@A2", ["nn"])]), ("@B", ["y", ("@C", ["x"])])])],
    ]
    return [build(t) for t in out]


class Log:
    def __init__(self):
        self.groups, self.tasks, self.execs = set(), set(), set()


def _plist(path):
    return tuple(path.as_list()) if path is not None else ()


def _gchain(g):
    out = []
    while g is not None:
        out.append(g.label)
        g = g.parent
    return tuple(reversed(out))


def _dchain(du):
    out = []
    while du is not None:
        out.append(du.label)
        du = du.parent_defer_usage
    return tuple(reversed(out))


def recording_executor(log):
    from graphql.execution.incremental.incremental_executor import IncrementalExecutor

    class Rec(IncrementalExecutor):
        def get_new_delivery_group_map(self, new_defer_usages, delivery_group_map, path):
            groups, m = super().get_new_delivery_group_map(new_defer_usages, delivery_group_map, path)
            for g in groups:
                log.groups.add((_plist(g.path), _gchain(g), _gchain(g.parent)))
            return groups, m

        def collect_execution_groups(self, parent_type, source_value, path, new_grouped_field_sets, delivery_group_map):
            from graphql.execution.incremental.incremental_executor import should_defer
            for dus, gfs in new_grouped_field_sets.items():
                log.tasks.add((_plist(path), frozenset(_dchain(d) for d in dus), frozenset(gfs), bool(should_defer(self.defer_usage_set, dus))))
            return super().collect_execution_groups(parent_type, source_value, path, new_grouped_field_sets, delivery_group_map)

        def execute_fields(self, parent_type, source_value, path, grouped_field_set, position_context):
            dus = self.defer_usage_set
            for k in grouped_field_set:
                log.execs.add((_plist(path), k, frozenset(_dchain(d) for d in dus) if dus else frozenset()))
            return super().execute_fields(parent_type, source_value, path, grouped_field_set, position_context)
    return Rec


def _resolver(fail):
    def resolve(src, info):
        f = info.field_name
        if f in ("o", "p"):
            return {}
        if f == "nn":
            if fail:
                raise RuntimeError("nn fails")
            return 7
        return 1
    return resolve


def execute(doc, fail, early=False, executor_class=None):
    """-> (initial formatted, [subsequent formatted]) or a plain formatted result"""
    from graphql import parse
    from graphql.execution import experimental_execute_incrementally, ExperimentalIncrementalExecutionResults

    async def run():
        res = experimental_execute_incrementally(schema(), parse(render(doc)), {}, field_resolver=_resolver(fail),
                                                 enable_early_execution=early, executor_class=executor_class)
        if asyncio.iscoroutine(res) or asyncio.isfuture(res):
            res = await res
        if isinstance(res, ExperimentalIncrementalExecutionResults):
            return res.initial_result.formatted, [p.formatted async for p in res.subsequent_results]
        return res.formatted, None
    loop = asyncio.new_event_loop()
    try:
        return loop.run_until_complete(asyncio.wait_for(run(), 20))
    finally:
        loop.run_until_complete(loop.shutdown_asyncgens())
        loop.close()


def reference(doc, fail):
    from graphql import parse
    from graphql.execution import Executor, experimental_execute_incrementally
    res = experimental_execute_incrementally(schema(), parse(render(doc)), {}, field_resolver=_resolver(fail), executor_class=Executor)
    return res.formatted


def assemble(initial, payloads):
    """apply the subsequent payloads as the format prescribes; returns (data, failed labels)"""
    import copy
    data = copy.deepcopy(initial.get("data"))
    ids, failed = {}, set()

    def note(pending):
        for p in pending or []:
            ids[p["id"]] = p

    def at(path):
        cur = data
        for k in path:
            cur = cur[k]
        return cur
    note(initial.get("pending"))
    for p in payloads or []:
        note(p.get("pending"))
        for inc in p.get("incremental") or []:
            target = at(list(ids[inc["id"]]["path"]) + list(inc.get("subPath") or []))
            target.update(inc["data"])
        for c in p.get("completed") or []:
            if c.get("errors"):
                failed.add(ids[c["id"]].get("label"))
    return data, failed


def lost_leaves(ref, got, path=()):
    """leaves (path, key) of ref that got lacks, although no position on the way is null in got"""
    out = []
    if not isinstance(ref, dict) or not isinstance(got, dict):
        return out
    for k, v in ref.items():
        if k not in got:
            if isinstance(v, dict):
                out += [(p, kk) for p, kk in all_leaves(v, path + (k,))]
            else:
                out.append((path, k))
        elif isinstance(v, dict) and got[k] is not None:
            out += lost_leaves(v, got[k], path + (k,))
    return out


def all_leaves(ref, path):
    out = []
    for k, v in ref.items():
        if isinstance(v, dict):
            out += all_leaves(v, path + (k,))
        else:
            out.append((path, k))
    return out


def observe(doc, early=False):
    """one PlanV record for a document (plan from an error-free run; failed / lost from a run with nn failing)"""
    log = Log()
    ini, pays = execute(doc, False, early, recording_executor(log))
    rec = {"doc": doc,
           "groups": [{"path": list(p), "chain": list(c), "parent": list(pc)} for p, c, pc in sorted(log.groups)],
           "tasks": [{"path": list(p), "gs": [list(c) for c in sorted(gs)], "keys": sorted(ks), "soon": soon} for p, gs, ks, soon in sorted(log.tasks, key=repr)],
           "execs": [{"path": list(p), "key": k, "dus": [list(c) for c in sorted(dus)]} for p, k, dus in sorted(log.execs, key=repr)],
           "failed": [], "lost": [], "_clean_ok": True, "_text": render(doc)}
    # error-free: assembled = reference (C04 clause 1)
    data, failed = assemble(ini, pays) if pays is not None else (ini.get("data"), set())
    ref = reference(doc, False)
    rec["_clean_ok"] = data == ref.get("data") and not failed
    if any(n["k"] == "F" and n["key"] == "nn" for n in doc):
        ini2, pays2 = execute(doc, True, early)
        data2, failed2 = assemble(ini2, pays2) if pays2 is not None else (ini2.get("data"), set())
        # the non-propagating reference = the error-free reference with nn's null: compare against the clean reference
        # and let every position that is null in the assembled data explain what lies below it
        lost = []
        if isinstance(data2, dict):
            for p, k in lost_leaves(ref.get("data") or {}, data2):
                if k != "nn":
                    lost.append({"path": list(p), "key": k})
        rec["failed"] = sorted(x for x in failed2 if x)
        rec["lost"] = lost
    return rec
