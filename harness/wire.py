"""Wire format between Python and TLC (DESIGN 3.2): JSON without null, floats, big ints, non-ASCII."""
from __future__ import annotations

import math


def limbs(n: int):
    n = abs(n)
    out = []
    while n:
        out.append(n & 0x7FFF)
        n >>= 15
    return out  # little endian base 2^15


def enc_value(v, leaf_detail=True):
    """JSON-like Python value (response data) -> tagged wire value."""
    if v is None:
        return {"t": "null"}
    if v is True or v is False:
        return {"t": "b", "v": v}
    if isinstance(v, int):
        if leaf_detail and abs(v) < 2 ** 31:
            return {"t": "i", "v": v}
        return {"t": "I", "neg": v < 0, "limbs": limbs(v)}
    if isinstance(v, float):
        if math.isnan(v):
            return {"t": "f", "cls": "nan"}
        if math.isinf(v):
            return {"t": "f", "cls": "inf" if v > 0 else "-inf"}
        if v == int(v) and abs(v) < 2 ** 31:
            return {"t": "f", "cls": "fin", "num": int(v), "den": 1}
        return {"t": "f", "cls": "fin", "num": 0, "den": 0}
    if isinstance(v, str):
        if v.isascii():
            return {"t": "s", "v": v}
        return {"t": "S", "cp": [ord(c) for c in v]}
    if isinstance(v, (list, tuple)):
        return {"t": "l", "v": [enc_value(x, leaf_detail) for x in v]}
    if isinstance(v, dict):
        return {"t": "o", "kv": [[str(k), enc_value(x, leaf_detail)] for k, x in v.items()]}
    return {"t": "other", "cls": type(v).__name__}


def enc_path(path):
    return [{"s": p} if isinstance(p, str) else {"i": p} for p in path]
