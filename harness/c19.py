"""C19 - schema transformations preserve meaning: extend equals build, sort only reorders, diff is faithful.

P-spec: SchemaAlgebra.tla - ApplyExt (the specified effect of an extension) and Unordered (order-insensitive
reading of a schema), on top of SchemaValid.tla.
For seeded abstract schemas A and generated extensions B (new fields / interfaces / union members / enum values /
input fields on any subset of types, new types, new directives, new operation types; extension definitions in
random order in the document):
  E1 extend_schema(build(A), parse(B)) and build(A + B) have equal prints and equal projections
  E2 the original schema's projection and print are unchanged by extending   E3 an extension that adds nothing
  returns the original object        (TLC: extended = together, baseAfter = base, and = ApplyExt(A, B) as drift)
  S1 find_schema_changes(s, sort(s)) == [] and Unordered(project(sort(s))) = Unordered(project(s))  (TLC)
  S2 sort(sort(s)) prints like sort(s)        D1 find_schema_changes(s, s) == []
  D2 for single-edit mutants every reported change names an element whose projection differs, and the prints differ
"""
from __future__ import annotations

import copy
import random
import re

from . import common, gen_schema as gs
from .common import Evidence, Verdicts, run_tlc, pmap, seed

PROP = "C19"


def gen_extension(S, rnd):
    """-> (E abstract in generator form, extension SDL definitions as a list of strings)"""
    g = gs.Gen(rnd.randrange(10 ** 9))
    g.types = S["types"]
    g.by_name = {t["name"]: t for t in S["types"]}
    g.counter = 1000
    leaf = gs.BUILTIN + [t["name"] for t in S["types"] if t["kind"] in ("SCALAR", "ENUM")]
    input_types = leaf + [t["name"] for t in S["types"] if t["kind"] == "INPUT_OBJECT"]
    ext, defs, new_types, new_dirs = [], [], [], []
    roots = {"query": "", "mutation": "", "subscription": ""}

    def blank_ext(name):
        return {"name": name, "fields": [], "interfaces": [], "members": [], "values": [], "inputFields": [], "specifiedBy": None}
    # a new interface and a new object type that implements it
    if rnd.random() < 0.6:
        it = g.blank("INTERFACE", g.name("XIf"))
        it["fields"] = [{"name": "xi0", "type": g.wrap(gs.N(rnd.choice(leaf))), "description": g.text(0.2), "deprecation": None, "args": []}]
        ob = g.blank("OBJECT", g.name("XOb"))
        ob["interfaces"] = [it["name"]]
        ob["fields"] = [dict(it["fields"][0]), {"name": "xo1", "type": gs.N(rnd.choice(leaf)), "description": None, "deprecation": None, "args": g.args(input_types)}]
        new_types += [it, ob]
    # an existing interface that implements the new interface through its extension - together with everything that
    # implements it (an implementing type must implement the interfaces of its interfaces as well)
    must = set()
    ifaces = [t for t in S["types"] if t["kind"] == "INTERFACE"]
    if new_types and new_types[0]["kind"] == "INTERFACE" and ifaces and rnd.random() < 0.6:
        target = rnd.choice(ifaces)["name"]
        must = {target}
        grew = True
        while grew:
            grew = False
            for t in S["types"]:
                if t["kind"] in ("OBJECT", "INTERFACE") and t["name"] not in must and must & set(t["interfaces"]):
                    must.add(t["name"])
                    grew = True
        if any(f["name"] == "xi0" for t in S["types"] if t["name"] in must for f in t["fields"]):
            must = set()
    for t in S["types"]:
        if rnd.random() > 0.5 and t["name"] not in must:
            continue
        e = blank_ext(t["name"])
        k = t["kind"]
        if t["name"] in must:
            e["interfaces"].append(new_types[0]["name"])
            e["fields"].append(dict(new_types[0]["fields"][0]))
        if k in ("OBJECT", "INTERFACE"):
            for j in range(rnd.choice([1, 2])):
                e["fields"].append({"name": f"x{t['name'].lower()}{j}", "type": g.wrap(gs.N(rnd.choice(leaf))), "description": g.text(0.2),
                                    "deprecation": g.reason(0.2), "args": g.args(input_types)})
            # implement the new interface as well (objects only; adding its field)
            if k == "OBJECT" and t["name"] not in must and new_types and new_types[0]["kind"] == "INTERFACE" and rnd.random() < 0.4 \
                    and not any(f["name"] == "xi0" for f in t["fields"]):
                e["interfaces"].append(new_types[0]["name"])
                e["fields"].append(dict(new_types[0]["fields"][0]))
        elif k == "UNION":
            cands = [o["name"] for o in S["types"] + new_types if o["kind"] == "OBJECT" and o["name"] not in t["members"]]
            if cands:
                e["members"] = rnd.sample(cands, rnd.choice([1, min(2, len(cands))]))
        elif k == "ENUM":
            e["values"] = [{"name": f"X{j}", "description": g.text(0.2), "deprecation": g.reason(0.2)} for j in range(rnd.choice([1, 2]))]
        elif k == "INPUT_OBJECT":
            iv = g.input_value("xin", [b for b in input_types if b != t["name"]], allow_required=False)
            iv["deprecation"] = None
            if t["oneOf"]:          # the extension of a OneOf type adds nullable fields without default; the type stays OneOf
                while iv["type"][0] == "NN":
                    iv["type"] = iv["type"][1]
                iv["hasDefault"], iv["default"] = False, {"t": "null"}
            e["inputFields"] = [iv]
        else:
            continue
        if any(e[x] for x in ("fields", "interfaces", "members", "values", "inputFields")):
            ext.append(e)
    # scalar extensions: several extension nodes for one scalar, some giving the @specifiedBy url, some only a custom directive
    scalar_exts = []
    plain_scalars = [t for t in S["types"] if t["kind"] == "SCALAR" and t["specifiedBy"] is None]
    if plain_scalars and rnd.random() < 0.6:
        sc = rnd.choice(plain_scalars)
        new_dirs.append({"name": "xs", "description": None, "locations": ["SCALAR"], "repeatable": True, "args": []})
        kinds_ = rnd.choice([["url", "dir"], ["dir", "url"], ["url", "dir", "dir"], ["dir", "url", "dir"], ["url"]])
        for kd in kinds_:
            e = blank_ext(sc["name"])
            if kd == "url":
                e["specifiedBy"] = "https://example.com/" + sc["name"].lower()
            scalar_exts.append(e)
    if rnd.random() < 0.5:
        en = g.blank("ENUM", g.name("XEn"))
        en["values"] = [{"name": "A", "description": None, "deprecation": None}]
        new_types.append(en)
    if rnd.random() < 0.4:
        new_dirs.append({"name": "xdir", "description": g.text(0.3), "locations": rnd.sample(gs.LOCS_EXEC + gs.LOCS_TS, 2), "repeatable": rnd.random() < 0.5,
                         "args": g.args(input_types, 0.5)})
    if not S["mutation"] and rnd.random() < 0.4:
        m = g.blank("OBJECT", "XMutation")
        m["fields"] = [{"name": "doIt", "type": gs.N("Int"), "description": None, "deprecation": None, "args": []}]
        new_types.append(m)
        roots["mutation"] = "XMutation"
    # SDL of the extension document, definitions in random order; new types / directives keep that document order
    items = []
    for e in ext:
        t = next(x for x in S["types"] if x["name"] == e["name"])
        k = t["kind"]
        if k in ("OBJECT", "INTERFACE"):
            fake = {**t, "description": None, "fields": e["fields"], "interfaces": e["interfaces"]}
            items.append(("ext", e, "extend " + gs.to_sdl(S, types=[fake], directives=[], with_schema_block=False).strip()))
        elif k == "UNION":
            items.append(("ext", e, f"extend union {t['name']} = " + " | ".join(e["members"])))
        elif k == "ENUM":
            fake = {**t, "description": None, "values": e["values"]}
            items.append(("ext", e, "extend " + gs.to_sdl(S, types=[fake], directives=[], with_schema_block=False).strip()))
        else:
            fake = {**t, "description": None, "inputFields": e["inputFields"], "oneOf": False}
            items.append(("ext", e, "extend " + gs.to_sdl(S, types=[fake], directives=[], with_schema_block=False).strip()))
    for e in scalar_exts:
        items.append(("ext", e, f"extend scalar {e['name']} " + (f"@specifiedBy(url: {gs.q(e['specifiedBy'])})" if e["specifiedBy"] else "@xs")))
    for t in new_types:
        items.append(("type", t, gs.to_sdl(S, types=[t], directives=[], with_schema_block=False).strip()))
    for d in new_dirs:
        items.append(("dir", d, gs.to_sdl(S, types=[], directives=[d], with_schema_block=False).strip()))
    if roots["mutation"]:
        items.append(("schema", None, "extend schema {\n  mutation: XMutation\n}"))
    rnd.shuffle(items)
    E = {"ext": [x for k, x, _ in items if k == "ext"], "newTypes": [x for k, x, _ in items if k == "type"],
         "newDirectives": [x for k, x, _ in items if k == "dir"], **roots}
    return E, [sdl for _k, _x, sdl in items]


def ext_wire(E):
    W = gs.to_wire({"description": None, "query": None, "mutation": None, "subscription": None, "types": E["newTypes"], "directives": E["newDirectives"]})
    exts = []
    for e in E["ext"]:
        fake = {"kind": "OBJECT", "name": e["name"], "description": None, "specifiedBy": None, "oneOf": False, **{k: e[k] for k in ("fields", "interfaces", "members", "values", "inputFields")}}
        w = gs.to_wire({"description": None, "query": None, "mutation": None, "subscription": None, "types": [fake], "directives": []})["types"][0]
        exts.append({**{k: w[k] for k in ("name", "fields", "interfaces", "members", "values", "inputFields")}, "specifiedBy": gs._txt(e.get("specifiedBy"))})
    return {"ext": exts, "newTypes": W["types"], "newDirectives": W["directives"], "query": E["query"], "mutation": E["mutation"], "subscription": E["subscription"]}


IDENT = re.compile(r"[_A-Za-z][_0-9A-Za-z]*")


def element_index(P):
    """names -> projected element, for witness lookup"""
    idx = {}
    for t in P["types"]:
        idx[t["name"]] = t
    for d in P["directives"]:
        idx["@" + d["name"]] = d
        idx[d["name"]] = d
    return idx


def all_defaults(schema):
    """coordinate -> coerced default value (or the error class) of every argument and input field that has a default"""
    from graphql.type import is_input_object_type, is_object_type, is_interface_type
    from graphql.utilities.coerce_input_value import coerce_default_value
    out = {}

    def put(coord, iv):
        if iv.default is None:
            return
        try:
            out[coord] = repr(coerce_default_value(iv))
        except Exception as e:  # noqa: BLE001
            out[coord] = "raises " + type(e).__name__
    for tn, t in schema.type_map.items():
        if tn.startswith("__"):
            continue
        if is_input_object_type(t):
            for fn, f in t.fields.items():
                put(f"{tn}.{fn}", f)
        elif is_object_type(t) or is_interface_type(t):
            for fn, f in t.fields.items():
                for an, a in f.args.items():
                    put(f"{tn}.{fn}({an}:)", a)
    for d in schema.directives:
        for an, a in d.args.items():
            put(f"@{d.name}({an}:)", a)
    return out


def _chunk(seeds):
    from graphql import build_schema, parse, print_schema, validate_schema, extend_schema, lexicographic_sort_schema
    from graphql.utilities import find_schema_changes
    out = []
    for sd in seeds:
        rnd = random.Random(sd)
        S = gs.gen_schema(sd, adversarial_text=rnd.random() < 0.5)
        if sd % 5 < 3:
            # the generator numbers its names in definition order, which is already sorted: shuffle every member list so
            # that sorting really moves arguments, fields, values, members, interfaces, types and directives
            for t in S["types"]:
                for k in ("fields", "inputFields", "values", "members", "interfaces"):
                    rnd.shuffle(t[k])
                for f in t["fields"]:
                    rnd.shuffle(f["args"])
            for d in S["directives"]:
                rnd.shuffle(d["args"])
            rnd.shuffle(S["types"])
            rnd.shuffle(S["directives"])
        A = gs.to_sdl(S)
        viol = []
        try:
            sA = build_schema(A)
            if validate_schema(sA):
                out.append({"skipped": "base invalid"})
                continue
        except Exception as e:  # noqa: BLE001
            out.append({"skipped": f"base not constructible: {type(e).__name__}"})
            continue
        base_proj = gs.normalise(gs.project(sA))
        base_print = print_schema(sA)
        recs = []
        # ---- extend
        E, defs = gen_extension(copy.deepcopy(S), rnd)
        B = "\n\n".join(defs)
        if B.strip():
            try:
                docB = parse(B)
                ext = extend_schema(sA, docB)
                together = build_schema(A + "\n\n" + B)
                v_ext, v_tog = validate_schema(ext), validate_schema(together)
                if bool(v_ext) != bool(v_tog):
                    viol.append(("extended-and-built-together-disagree-on-validity", {"extended": [e.message for e in v_ext][:2], "together": [e.message for e in v_tog][:2],
                                                                                       "extension": B[:400]}))
                elif v_ext:
                    out.append({"skipped": "extension result invalid"})
                else:
                    # the values that requests see: every default of the original is coerced first (what a request on the
                    # original schema does), then the defaults of the extended schema must be those of the schema built together
                    all_defaults(sA)
                    de, dt = all_defaults(ext), all_defaults(together)
                    if de != dt:
                        k0 = next(k for k in dt if de.get(k) != dt[k])
                        viol.append(("defaults-of-extended-schema-differ-from-building-together", {"where": k0, "extended": repr(de.get(k0))[:120], "together": repr(dt[k0])[:120],
                                                                                                 "extension": B[:300]}))
                    pe, pt = print_schema(ext), print_schema(together)
                    if pe != pt:
                        k = next((i for i, (a, b) in enumerate(zip(pe, pt)) if a != b), min(len(pe), len(pt)))
                        viol.append(("extended-print-differs-from-building-together", {"at": k, "extended": pe[max(0, k - 80):k + 80], "together": pt[max(0, k - 80):k + 80]}))
                    if print_schema(sA) != base_print:
                        viol.append(("original-print-changed-by-extending", None))
                    recs.append({"kind": "extend", "base": gs.to_wire(base_proj), "ext": ext_wire(E), "extended": gs.to_wire(gs.normalise(gs.project(ext))),
                                 "together": gs.to_wire(gs.normalise(gs.project(together))), "baseAfter": gs.to_wire(gs.normalise(gs.project(sA))),
                                 "sorted": {}, "sortedTwice": {}})
            except Exception as e:  # noqa: BLE001
                viol.append(("extend-or-build-raises", {"error": f"{type(e).__name__}: {str(e)[:200]}", "extension": B[:600]}))
        # E3: an extension document that adds nothing returns the original
        try:
            if extend_schema(sA, parse("fragment Nothing on Query { __typename }"), assume_valid=True) is not sA:
                viol.append(("empty-extension-does-not-return-the-original", None))
        except Exception as e:  # noqa: BLE001
            viol.append(("empty-extension-raises", f"{type(e).__name__}: {str(e)[:100]}"))
        # ---- sort
        try:
            s1 = lexicographic_sort_schema(sA)
            s2 = lexicographic_sort_schema(s1)
            ch = find_schema_changes(sA, s1)
            if ch:
                viol.append(("changes-reported-between-schema-and-sorted", [c.description for c in ch][:3]))
            if print_schema(s2) != print_schema(s1):
                viol.append(("sorting-twice-prints-differently", None))
            recs.append({"kind": "sort", "base": gs.to_wire(base_proj), "sorted": gs.to_wire(gs.normalise(gs.project(s1))),
                         "sortedTwice": gs.to_wire(gs.normalise(gs.project(s2))), "ext": {}, "extended": {}, "together": {}, "baseAfter": {}})
        except Exception as e:  # noqa: BLE001
            viol.append(("sort-raises", f"{type(e).__name__}: {str(e)[:100]}"))
        # ---- diff
        try:
            if find_schema_changes(sA, sA):
                viol.append(("changes-reported-for-identical-schema", None))
            if find_schema_changes(sA, build_schema(A)):
                viol.append(("changes-reported-for-equal-schemas", None))
        except Exception as e:  # noqa: BLE001
            viol.append(("find_schema_changes-raises", f"{type(e).__name__}: {str(e)[:100]}"))
        # single-edit mutants: apply one extension element, or drop one element
        for _ in range(3):
            M = copy.deepcopy(S)
            edit = rnd.choice(["drop-field", "drop-value", "retype", "add-field", "drop-type-member", "change-default", "deprecate", "describe"])
            try:
                t = rnd.choice(M["types"])
                if edit == "drop-field" and len(t["fields"]) > 1 and t["kind"] == "OBJECT" and not t["interfaces"]:
                    t["fields"].pop()
                elif edit == "drop-value" and len(t["values"]) > 1:
                    t["values"].pop()
                elif edit == "retype" and t["fields"] and t["kind"] == "OBJECT" and not t["interfaces"]:
                    f = t["fields"][-1]
                    f["type"] = ["NN", f["type"]] if f["type"][0] != "NN" else f["type"][1]
                elif edit == "add-field" and t["kind"] == "OBJECT":
                    t["fields"].append({"name": "zzNew", "type": gs.N("Int"), "description": None, "deprecation": None, "args": []})
                elif edit == "drop-type-member" and len(t["members"]) > 1:
                    t["members"].pop()
                elif edit == "change-default":
                    ivs = [a for f in t["fields"] for a in f["args"] if gs.named(a["type"]) == "Int" and a["type"][0] == "N"] + \
                          [f for f in t["inputFields"] if gs.named(f["type"]) == "Int" and f["type"][0] == "N"]
                    if not ivs:
                        continue
                    ivs[0]["hasDefault"], ivs[0]["default"] = True, {"t": "i", "v": 424242}
                elif edit == "deprecate" and t["fields"] and t["kind"] == "OBJECT" and not t["interfaces"]:
                    t["fields"][-1]["deprecation"] = "changed reason"
                elif edit == "describe":
                    t["description"] = "changed description"
                else:
                    continue
                sM = build_schema(gs.to_sdl(M))
                if validate_schema(sM):
                    continue
                changes = find_schema_changes(sA, sM)
                pM = gs.normalise(gs.project(sM))
                differs = pM != base_proj
                if changes and print_schema(sM) == base_print:
                    viol.append(("change-reported-but-prints-are-equal", [c.description for c in changes][:3]))
                if changes and not differs:
                    viol.append(("change-reported-but-projections-are-equal", [c.description for c in changes][:3]))
                ia, ib = element_index(base_proj), element_index(pM)
                for c in changes:
                    names = IDENT.findall(c.description)
                    builtin_moved = any(n in gs.BUILTIN and ((n in sA.type_map) != (n in sM.type_map)) for n in names)
                    if not builtin_moved and not any((n in ia or n in ib) and ia.get(n) != ib.get(n) for n in names):
                        viol.append(("reported-change-has-no-witness", {"edit": edit, "change": c.description}))
            except Exception as e:  # noqa: BLE001
                viol.append(("diff-of-mutant-raises", {"edit": edit, "error": f"{type(e).__name__}: {str(e)[:120]}"}))
        out.append({"recs": recs, "viol": viol, "seed": sd, "sdl": A[:500], "ext": B[:500]})
    return out


def run(tier: str, rd):
    ev = Evidence(PROP, tier)
    vd = Verdicts(PROP)
    n = 200 if tier == "quick" else 2000
    base = seed() * 1000000 + 1900000
    res = []
    for lst in pmap(_chunk, list(range(base, base + n)), chunk=5):
        res += lst
    skipped = [r for r in res if "skipped" in r]
    res = [r for r in res if "recs" in r]
    recs = []
    for r in res:
        for clause, detail in r["viol"]:
            vd.violation(clause, {"seed": r["seed"], "extension": r["ext"][:300]}, detail)
        for rec in r["recs"]:
            rec["_seed"] = r["seed"]
            rec["_ext"] = r["ext"]
            recs.append(rec)
    hits = {}
    for bi in range(0, len(recs), 300):
        batch = recs[bi:bi + 300]
        payload = [{k: v for k, v in r.items() if not k.startswith("_")} for r in batch]
        p = common.write_cases(rd, f"alg{bi}.json", payload)
        r = run_tlc(rd, "SchemaAlgebraV", common.v_cfg(), name=f"AlgV{bi}", env={"CASES": str(p)}, timeout=3400, heap="20g")
        ev.add_tlc(f"V: {len(batch)} extend/sort records vs SchemaAlgebra.tla", r)
        for o in r.json_lines():
            rec = batch[o["viol"] - 1]
            hits[o["clause"]] = hits.get(o["clause"], 0) + 1
            if o["clause"].startswith("drift") or o["clause"].startswith("skip"):
                vd.note_drift(o["clause"], {"seed": rec["_seed"], "extension": rec["_ext"][:300]})
            else:
                vd.violation(o["clause"], {"seed": rec["_seed"], "kind": rec["kind"], "extension": rec["_ext"][:400]}, None)
    ev.traces += len(recs)
    for r in recs:
        ev.case(None, nontrivial=True, key=f"{r['_seed']}|{r['kind']}")
    if res:
        ev.sample({"seed": res[0]["seed"], "base_sdl": res[0]["sdl"][:300], "extension_sdl": res[0]["ext"][:400]})
    ev.extra.update({"schemas": len(res), "skipped": len(skipped), "extend_records": sum(1 for r in recs if r["kind"] == "extend"),
                     "sort_records": sum(1 for r in recs if r["kind"] == "sort"), "clause_hits": hits})
    ev.rule = "seeded (base schema, extension document) pairs with shuffled extension definitions, sort and single-edit mutants per base schema"
    ev.assumptions = ["agreement of the extended schema with ApplyExt is MODEL-DRIFT; E1-E3, S1-S2, D1-D2 are verdicts",
                      "a change 'has a witness' when an element named in its description projects differently in the two schemas"]
    rc = vd.finish()
    ev.write(vd)
    return rc


if __name__ == "__main__":
    common.main_wrapper(PROP, run)
