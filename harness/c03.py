"""C03 - the response does not depend on when resolvers complete.

For seeded abstract requests (gqlmini) every resolver result, abstract-type resolution, list item and
async-iterator step is independently synchronous or an awaitable bound to a harness gate. The request is
executed with execute() on the deterministic loop under every completion order of the gates the code really
has pending (exhaustive re-execution up to a run budget, seeded random orders beyond). Each async response is
evaluated by TLC (AsyncV.tla) against Execute.tla (same data, same set of nulled positions), against the fully
synchronous execution, for well-formedness, and - for mutations - for seriality of the top-level fields.
"""
from __future__ import annotations

import asyncio
import hashlib
import random
import warnings

from . import common, gqlmini, wire
from .detloop import DetLoop, NoQuiescence
from .common import Evidence, Verdicts, run_tlc, pmap, seed

warnings.simplefilter("ignore", RuntimeWarning)
PROP = "C03"


def hh(seed_, key, salt):
    return int.from_bytes(hashlib.sha1(f"{seed_}|{key}|{salt}".encode()).digest()[:4], "big") / 2 ** 32


def root_of(key):
    return key.split(":")[-1].split("/")[0].split("#")[0].split("~")[0]


def gate_path(g):
    """response path of the position a gate belongs to"""
    body = g.split(":")[-1].split("#")[0].split("~")[0]
    return wire.enc_path([int(p) if p.isdigit() else p for p in body.split("/")])


class ARun:
    def __init__(self, case, sd, p_gate, op):
        from graphql import parse
        from graphql.execution import execute
        self.loop = DetLoop()
        self.gates = {}
        self.inflight = {}
        self.counts = {}
        self.log = []
        self.calls = []
        self.sd, self.p_gate = sd, p_gate
        self.result = None
        self.raised = None
        doc = parse(gqlmini.render_doc(case, op))
        # abstract types are resolved either by a (possibly awaitable) resolve_type or, for odd seeds, by the default
        # resolver through the possible types' (possibly awaitable) is_type_of
        use_is_type_of = sd % 2 == 1
        gqlmini.IS_TYPE_OF_HOOK = (lambda tn, thunk, info: self.wrap(f"istype{tn}:" + "/".join(map(str, info.path.as_list())), thunk)) if use_is_type_of else None
        asyncio.events._set_running_loop(self.loop)
        try:
            r = execute(gqlmini.schema(), doc, gqlmini.to_py(case["root"]), variable_values=gqlmini.render_vars(case),
                        field_resolver=gqlmini.make_resolver(self.calls, self.wrap),
                        type_resolver=None if use_is_type_of else gqlmini.make_type_resolver(self.wrap))
        finally:
            asyncio.events._set_running_loop(None)
        if asyncio.iscoroutine(r) or asyncio.isfuture(r):
            self.task = self.loop.create_task(self._await(r))
        else:
            self.result = r
            self.task = None
        self.hang = False
        self._q()

    async def _await(self, r):
        try:
            self.result = await r
        except Exception as e:  # noqa: BLE001
            self.raised = e

    def _q(self):
        try:
            self.loop.quiesce(20000)
        except NoQuiescence:
            self.hang = True

    def gate(self, name):
        n = self.counts.get(name, 0)
        self.counts[name] = n + 1
        if n:
            name = f"{name}~{n}"
        self.gates[name] = self.loop.create_future()
        return name, self.gates[name]

    def wrap(self, key, thunk):
        root = root_of(key)
        if not key.startswith("type:") and not key.startswith("istype"):
            # a resolver of root field `root` is invoked: which other root fields still have uncancelled pending gates?
            for g, f in self.gates.items():
                if not f.done() and root_of(g) != root and not g.startswith("istype") and not g.startswith("type:"):
                    self.log.append({"r": root, "e": root_of(g), "at": gate_path(g), "rat": gate_path(key), "cw": False})
            # ... and which resolver coroutines of other root fields were cancelled but have not finished unwinding?
            # (a failed field waits for the siblings it cancels before its error propagates: gather_with_cancel)
            for g, f in self.inflight.items():
                if f.cancelled() and root_of(g) != root:
                    self.log.append({"r": root, "e": root_of(g), "at": gate_path(g), "rat": gate_path(key), "cw": True})
        mode = hh(self.sd, key, "m")
        if mode >= self.p_gate:
            return self.listify(key, thunk())

        async def later():
            name, fut = self.gate(key)
            self.inflight[name] = fut
            try:
                await fut
            finally:
                # the coroutine is unwinding (normally or by cancellation); a cleanup step takes one more turn of the loop
                if fut.cancelled():
                    try:
                        await asyncio.sleep(0)
                    finally:
                        self.inflight.pop(name, None)
                else:
                    self.inflight.pop(name, None)
            return self.listify(key, thunk())
        return later()

    def listify(self, key, v):
        """lists become: plain list | list with awaitable items | async iterator with gated steps"""
        if not isinstance(v, list):
            return v
        k = hh(self.sd, key, "l")
        if k < 0.5:
            return v
        run = self

        if k < 0.75:
            def item(i, x):
                if hh(run.sd, key, f"i{i}") < 0.5:
                    return x

                async def aw():
                    name, fut = run.gate(f"{key}#{i}")
                    await fut
                    if isinstance(x, Exception):
                        raise x
                    return x
                return aw()
            return [item(i, x) for i, x in enumerate(v)]

        class AIter:
            def __init__(self):
                self.i = 0

            def __aiter__(self):
                return self

            async def __anext__(self):
                if hh(run.sd, key, f"n{self.i}") < 0.6:
                    name, fut = run.gate(f"{key}#n{self.i}")
                    await fut
                if self.i >= len(v):
                    raise StopAsyncIteration
                self.i += 1
                x = v[self.i - 1]
                return x

            async def aclose(self):
                pass
        return AIter()

    def pending(self):
        return [g for g, f in self.gates.items() if not f.done()]

    def settle(self, g):
        self.gates[g].set_result(None)
        self._q()

    def close(self):
        gqlmini.IS_TYPE_OF_HOOK = None
        for t in self.loop.pending_tasks():
            t.cancel()
        try:
            self.loop.quiesce(20000)
        except NoQuiescence:
            pass
        self.loop.close()


def sync_reference(case, op):
    from graphql import parse, execute_sync
    doc = parse(gqlmini.render_doc(case, op))
    calls = []
    return execute_sync(gqlmini.schema(), doc, gqlmini.to_py(case["root"]), variable_values=gqlmini.render_vars(case),
                        field_resolver=gqlmini.make_resolver(calls), type_resolver=gqlmini.type_resolver)


def explore(case, sd, p_gate, op, budget, rng):
    """All completion orders by re-execution (DFS) while the budget lasts, then random orders."""
    results = []
    runs = 0

    def run_prefix(prefix):
        nonlocal runs
        r = ARun(case, sd, p_gate, op)
        for g in prefix:
            if g not in r.gates or r.gates[g].done():
                r.close()
                return None
            r.settle(g)
        runs += 1
        return r

    def rec(prefix):
        if runs >= budget:
            return
        r = run_prefix(prefix)
        if r is None:
            return
        pend = r.pending()
        if not pend or r.hang:
            results.append((list(prefix), r))
            return
        r.close()
        for g in pend:
            rec(prefix + [g])
    rec([])
    exhaustive = runs < budget
    extra = 0
    while not exhaustive and extra < max(4, budget // 4):
        r = ARun(case, sd, p_gate, op)
        order = []
        while True:
            pend = r.pending()
            if not pend or r.hang:
                break
            g = rng.choice(pend)
            order.append(g)
            r.settle(g)
        results.append((order, r))
        extra += 1
    return results, exhaustive


def targeted_cases():
    """Small hand-shaped requests for the cancellation / seriality rules: a root field whose object (or list of objects) has
    several awaitable fields of which a non-null one fails, followed by another root field."""
    def F(name, sel=(), alias=""):
        return {"k": "F", "alias": alias, "name": name, "args": [], "dirs": [], "sel": list(sel)}

    def iv(n):
        return {"t": "v", "v": {"t": "i", "v": n}}

    def A(y):
        return {"t": "o", "type": "A", "f": {"x": iv(1), "y": y, "s": {"t": "v", "v": {"t": "s", "v": "s1"}}, "o": {"t": "null"}}}
    out = []
    for bad in ({"t": "null"}, {"t": "err"}):
        for first, data in (("o", A(bad)), ("on", A(bad)), ("l", {"t": "l", "v": [A(iv(2)), A(bad)]}), ("la", {"t": "l", "v": [A(bad), A(iv(3))]})):
            for op in ("mutation", "query"):
                root_type = "Mutation" if op == "mutation" else "Query"
                sel = [F(first, [F("x"), F("y"), F("s")]), F("a"), F("o", [F("x"), F("s")], alias="o2")]
                root = {"t": "o", "type": root_type, "f": {first: data, "a": iv(2), "o": A(iv(5))}}
                if first == "o":
                    root["f"]["o"] = data
                out.append(({"schema": gqlmini.ABS_MUTATION if op == "mutation" else gqlmini.ABS,
                             "doc": {"sel": sel, "frags": {"_": {"on": "Query", "sel": []}}, "vardefs": []}, "vars": {"_": {"t": "null"}}, "root": root}, op))
    return out


def _chunk(jobs):
    from graphql import parse, validate
    out = []
    targeted = targeted_cases()
    for sd, tier in jobs:
        rng = random.Random(sd)
        op = "mutation" if rng.random() < 0.3 else "query"
        case = gqlmini.gen_case(sd, depth=rng.choice([2, 2, 3]), op=op)
        if sd < 0:
            case, op = targeted[(-sd - 1) % len(targeted)]
        if op == "mutation" and (sd if sd >= 0 else -sd) % 5 < 2:
            # the whole root selection inside one inline fragment or one named fragment: the operation has a single root
            # *selection* and still several root *fields*, which execute serially
            import copy
            case = copy.deepcopy(case)
            d = case["doc"]
            if sd % 2:
                d["sel"] = [{"k": "I", "on": rng.choice(["", "Mutation"]), "dirs": [], "sel": d["sel"]}]
            else:
                d["frags"] = {k: v for k, v in d["frags"].items() if k != "_"}
                d["frags"]["Froot"] = {"on": "Mutation", "sel": d["sel"]}
                d["sel"] = [{"k": "S", "name": "Froot", "dirs": []}]
        text = gqlmini.render_doc(case, op)
        try:
            if validate(gqlmini.schema(), parse(text)):
                out.append({"invalid": True})
                continue
            ref = sync_reference(case, op)
        except Exception as e:  # noqa: BLE001
            out.append({"error": f"sync reference: {type(e).__name__}: {e}", "query": text})
            continue
        p_gate = rng.choice([0.3, 0.6, 1.0]) if sd >= 0 else 1.0
        results, exhaustive = explore(case, sd, p_gate, op, (60 if tier == "quick" else 400) if sd >= 0 else 150, rng)
        for order, r in results:
            meta = {"seed": sd, "query": text, "variables": gqlmini.render_vars(case), "order": order, "p_gate": p_gate, "exhaustive": exhaustive}
            if r.hang or r.raised is not None or r.result is None:
                out.append({"error": "hang" if r.hang else f"execute raised {type(r.raised).__name__}: {r.raised}" if r.raised else "no result at quiescence", "_meta": meta})
                r.close()
                continue
            rec = dict(case)
            rec["response"] = gqlmini.enc_response(r.result)
            rec["sync"] = gqlmini.enc_response(ref)
            rec["calls"] = r.calls
            rec["log"] = r.log if op == "mutation" else []
            rec["serial"] = op == "mutation"
            rec["_meta"] = meta
            rec["_gates"] = len(order)
            out.append(rec)
            r.close()
    return out


def _am_chunk(jobs):
    from . import asyncmodel
    return asyncmodel.make_records([sd for sd, _t in jobs], jobs[0][1])


def run(tier: str, rd):
    ev = Evidence(PROP, tier)
    vd = Verdicts(PROP)
    n = 500 if tier == "quick" else 4000
    base = seed() * 1000000 + 500000
    recs = []
    # hand-shaped requests (negative seeds; both type-resolution routes: the parity of the seed selects it)
    n_t = 2 * len(targeted_cases())
    for lst in pmap(_chunk, [(s, tier) for s in range(base, base + n)] + [(-k, tier) for k in range(1, n_t + 1)], chunk=10):
        recs += lst
    for e in [r for r in recs if "error" in r][:5]:
        vd.violation("execution-failed", e.get("_meta") or {"query": e.get("query")}, e["error"])
    n_invalid = sum(1 for r in recs if r.get("invalid"))
    recs = [r for r in recs if "response" in r]
    hits = {}
    for bi in range(0, len(recs), 8000):
        batch = recs[bi:bi + 8000]
        payload = [{k: v for k, v in r.items() if not k.startswith("_")} for r in batch]
        p = common.write_cases(rd, f"async{bi}.json", payload)
        r = run_tlc(rd, "AsyncV", common.v_cfg(), name=f"AsyncV{bi}", env={"CASES": str(p)}, timeout=3400, heap="16g")
        ev.add_tlc(f"V: {len(batch)} async responses (one per explored completion order) vs Execute.tla / sync / well-formedness / seriality", r)
        for o in r.json_lines():
            rec = batch[o["viol"] - 1]
            hits[o["clause"]] = hits.get(o["clause"], 0) + 1
            vd.violation(o["clause"], rec["_meta"], {"async": rec["response"], "sync": rec["sync"]})
    # ---- I-spec: AsyncExec.tla (the executor's scheduling), M over every completion order + V against the real executor
    n_am = 150 if tier == "quick" else 2000
    am = []
    for lst in pmap(_am_chunk, [(s, tier) for s in range(base + 50000, base + 50000 + n_am)], chunk=10):
        am += lst
    am_stats = {"requests": len(am), "orders_executed": sum(len(r["runs"]) for r in am), "mutations": sum(1 for r in am if r["serial"]),
                "requests_explored_exhaustively": sum(1 for r in am if r["_meta"]["exhaustive"]), "drift": {}}
    for r in am:
        for fr in r["_meta"]["failed_runs"]:
            vd.violation("execution-failed", r["_meta"], str(fr))
    for bi in range(0, len(am), 1000):
        batch = am[bi:bi + 1000]
        payload = [{k: v for k, v in r.items() if not k.startswith("_")} for r in batch]
        p = common.write_cases(rd, f"am{bi}.json", payload)
        r = run_tlc(rd, "MCAsyncExec", "INIT Init\nNEXT Stutter\nINVARIANT TraceOK\nCHECK_DEADLOCK FALSE\n", name=f"AsyncExecV{bi}", env={"CASES": str(p)},
                    timeout=3400, heap="16g")
        ev.add_tlc(f"V (I-spec): {sum(len(x['runs']) for x in batch)} executed completion orders of {len(batch)} requests replayed on AsyncExec.tla, "
                   "pending gates compared after every step", r)
        for o in r.json_lines():
            am_stats["drift"][o["clause"]] = am_stats["drift"].get(o["clause"], 0) + 1
            vd.note_drift(f"AsyncExec.tla: {o['clause']}", {**batch[o["viol"] - 1]["_meta"], "run": o.get("run"), "at": o.get("at")})
        # M: every completion order on the model (a part of the batch in the quick tier)
        # (requests with at most 12 gates: the number of reachable states grows exponentially with the gates that are pending together)
        sized = sorted(((max((len(x["steps"]) for x in rr["runs"]), default=0), k) for k, rr in enumerate(batch)), reverse=True)
        small = [payload[k] for n_g, k in sized if n_g <= 12]
        mbatch = small[:40] if tier == "quick" else small[:400]
        pm = common.write_cases(rd, f"amM{bi}.json", mbatch)
        r = run_tlc(rd, "MCAsyncExec", "INIT Init\nNEXT Next\nINVARIANT Confluence\nINVARIANT Progress\nINVARIANT Seriality\nINVARIANT Orphans\nCHECK_DEADLOCK FALSE\n",
                    name=f"AsyncExecM{bi}", env={"CASES": str(pm)}, timeout=3400, heap="16g", allow_violation=True)
        ev.add_tlc(f"M (I-spec): every completion order of {len(mbatch)} requests on AsyncExec.tla: Confluence with Execute.tla, Progress, Seriality, Orphans", r)
        if r.invariant_violations or r.rc not in (0,):
            vd.note_drift(f"AsyncExec.tla violates {r.invariant_violations or r.rc} on the model", {"batch": bi, "tail": r.tail(12)[-600:]})
            am_stats["drift"]["model-invariant"] = str(r.invariant_violations or r.rc)
        if tier == "quick":
            break
    ev.traces += sum(len(r["runs"]) for r in am)
    ev.extra["AsyncExec_I_spec"] = am_stats
    ev.traces += len(recs)
    for r in recs:
        ev.case(None, nontrivial=r["_gates"] >= 2, key=common.digest([r["_meta"]["query"], r["_meta"]["variables"], r["_meta"]["order"], r["root"]]))
    if recs:
        m = max(recs, key=lambda r: r["_gates"])
        ev.sample({"query": m["_meta"]["query"], "completion_order": m["_meta"]["order"], "response": m["response"]})
    ev.extra.update({"requests": n - n_invalid, "schedules_executed": len(recs), "mutation_schedules": sum(1 for r in recs if r["serial"]),
                     "requests_explored_exhaustively": len({r["_meta"]["seed"] for r in recs if r["_meta"]["exhaustive"]}),
                     "max_gates_in_a_schedule": max([r["_gates"] for r in recs] or [0]), "clause_hits": hits})
    ev.rule = ("seeded requests; per request every completion order of the pending gates by re-execution while the run budget lasts, random orders beyond; "
               "non-trivial = >= 2 gates settled")
    ev.assumptions = ["one gate completes per quiescent point", "sync reference computed by execute_sync (validated against Execute.tla by C02)"]
    rc = vd.finish()
    ev.write(vd)
    return rc


if __name__ == "__main__":
    common.main_wrapper(PROP, run)
