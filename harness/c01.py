"""C01 - the request pipeline is total: bad input becomes errors, never a crash.

G: LexEnum.tla enumerates every string `"` + w over the 12-symbol escape alphabet (every way of ending the
   source inside a string / escape / \\u / \\u{ sequence) and the three lexical alphabets of C09; the real
   lexer must raise nothing but GraphQLSyntaxError, and graphql_sync('{ f(a: ' + text) must return a result.
V-a: truncation / substitution sweep of documents, values, types and schema coordinates through all five
   parse entry points: only GraphQLSyntaxError may be raised. A sample is cross-checked against Lexical.tla.
V-b: pipeline sweep (graphql_sync and graphql on the deterministic loop): sources x variables x operation
   names x resolvers raising/returning exceptions of many classes; every formatted result is evaluated by
   TLC against Pipeline.tla's WellFormedResult.
"""
from __future__ import annotations

import random
import re

from . import common, gen_doc, lexbind, wire
from .common import Evidence, Verdicts, run_tlc, pmap, seed

PROP = "C01"

SCHEMA_SDL = """
type Query { f(a: String, i: Int = 3, l: [Int!], o: In, e: Color): String  g: G  n: Int!  lst: [G!]  u: U  it: I }
type Mutation { m(x: Int!): Int }
type Subscription { f: String  g: G }
type G implements I { x: Int  nn: Int!  g: G  s: String }
interface I { x: Int }
union U = G
input In { a: Int! = 1  b: [String]  c: In  abc: Int  medium: Int  greenish: Int }
enum Color { RED GREEN }
"""


def _schema():
    from graphql import build_schema
    return build_schema(SCHEMA_SDL)


def _g_chunk(recs):
    from graphql import graphql_sync
    schema = _schema()
    out = []
    n_req = 0
    for rec in recs:
        text = lexbind.from_cps(rec["s"])
        got = lexbind.real_lex(text)
        if got["ok"] not in (True, False):
            out.append(("lexer-raises", rec["s"], got["ok"]))
        elif got["ok"] != rec["r"]["ok"]:
            out.append(("drift-accept", rec["s"], None))
        if rec.get("req"):
            n_req += 1
            try:
                res = graphql_sync(schema, "{ f(a: " + text)
                if res.errors is None and res.data is None:
                    out.append(("result-empty", rec["s"], None))
            except Exception as e:  # noqa: BLE001
                out.append(("graphql_sync-raises", rec["s"], type(e).__name__))
    return out, n_req


# ---------------------------------------------------------------------------------------------
# V-a: parse entry points

PALETTE = ['"', "\\", "{", "}", "(", ")", "[", "]", "$", "@", ":", "!", "...", "#", "\n", "\ud800", "\x00", "'", "1.", '"""', "\\u", "\\u{", "-", "."]


def nested(rng, depth):
    k = rng.choice(["sel", "list", "obj", "type", "mixed"])
    if k == "sel":
        return "{a" * depth + "}" * depth, "document"
    if k == "list":
        return "[" * depth + "1" + "]" * depth, "value"
    if k == "obj":
        return "{a:" * depth + "1" + "}" * depth, "value"
    if k == "type":
        return "[" * depth + "Int" + "]" * depth, "type"
    return "{ f(a: " + "[{b:" * (depth // 2) + "$v" + "}]" * (depth // 2) + ") }", "document"


def entry_points():
    from graphql.language import parse, parse_value, parse_const_value, parse_type
    from graphql.language.parser import parse_schema_coordinate
    return {"document": parse, "value": parse_value, "const_value": parse_const_value, "type": parse_type,
            "coordinate": parse_schema_coordinate}


def _va_chunk(items):
    from graphql import GraphQLSyntaxError
    eps = entry_points()
    out = []
    counts = {"ok": 0, "syntax_error": 0, "other": 0}
    recs = []
    for text, entries in items:
        for en in entries:
            try:
                eps[en](text)
                oc = "ok"
            except GraphQLSyntaxError:
                oc = "syntax_error"
            except RecursionError:
                oc = "recursion"
            except Exception as e:  # noqa: BLE001
                oc = "other"
                out.append(("parse-raises", text, {"entry": en, "exc": type(e).__name__}))
            counts[oc] = counts.get(oc, 0) + 1
            recs.append((text, en, oc))
    return out, counts, recs


def va_items(tier, rng):
    from pathlib import Path
    bases = []
    for n in ("kitchen_sink.graphql", "schema_kitchen_sink.graphql"):
        bases.append(((Path(__file__).parent / "corpus" / n).read_text(), "document"))
    for _ in range(20 if tier == "quick" else 150):
        toks, _t = gen_doc.document(rng, frag_args=rng.random() < 0.3, dirs_on_dirs=rng.random() < 0.3)
        bases.append((gen_doc.join_tokens(toks, rng), "document"))
        tv, _ = gen_doc.value(rng, rng.random() < 0.5)
        bases.append((gen_doc.join_tokens(tv, rng), "value"))
        tt, _ = gen_doc.type_ref(rng)
        bases.append((gen_doc.join_tokens(tt, rng), "type"))
        bases.append((rng.choice(["Foo", "Foo.bar", "Foo.bar(baz:)", "@dir", "@dir(arg:)", "Foo . bar", "Foo.bar(baz :)"]), "coordinate"))
    for d in ([1, 2, 10, 50, 100] if tier == "quick" else [1, 2, 3, 5, 10, 25, 50, 75, 99, 100]):
        for _ in range(2):
            bases.append(nested(rng, d))
    all_entries = ["document", "value", "const_value", "type", "coordinate"]
    items = []
    for text, kind in bases:
        own = [kind] + (["const_value"] if kind == "value" else [])
        items.append((text, all_entries))
        positions = range(len(text) + 1)
        if tier == "quick" and len(text) > 60:
            positions = sorted(rng.sample(range(len(text) + 1), 60))
        for p in positions:
            items.append((text[:p], own))                                  # truncation
            sub = rng.choice(PALETTE)
            items.append((text[:p] + sub + text[p + 1:], own))             # substitution
            if tier != "quick":
                sub2 = rng.choice(PALETTE)
                items.append((text[:p] + sub2 + text[p:], all_entries))    # insertion, every entry point
    return items


# ---------------------------------------------------------------------------------------------
# V-b: pipeline sweep

class StrRaises(Exception):
    def __str__(self):
        raise RuntimeError("__str__ raises")


class WithExt(Exception):
    extensions = {"code": "X"}


class NoBool:
    def __bool__(self):
        raise ValueError("ambiguous truth value")

    def __len__(self):
        raise ValueError("ambiguous length")


def with_attr(name, value, base=Exception):
    """an ordinary exception that happens to carry an attribute the library looks at"""
    e = base("with " + name)
    setattr(e, name, value)
    return e


def with_raising_property(name, exc=RuntimeError):
    """an exception class on which reading the attribute `name` raises (a property whose getter fails)"""
    def getter(self):
        raise exc("reading ." + name + " fails")
    return type("Raising_" + name, (Exception,), {name: property(getter)})("raising " + name)


def exc_palette():
    from graphql import GraphQLError
    odd = [with_attr("extensions", v) for v in (["jpg", "png"], "ext", ("a",), {"s"}, 42, NoBool(), [], 0, {1: 2}, {"k": object()})]
    odd += [with_attr("extensions", ["x"], OSError), with_attr("path", "notalist"), with_attr("path", 5), with_attr("locations", "x"), with_attr("nodes", 1),
            with_attr("message", 5), with_attr("positions", "p"), with_attr("source", 1), with_attr("original_error", 1), with_attr("args", ())]
    from graphql import parse as _parse
    _node = _parse("{ f }").definitions[0].selection_set.selections[0]
    odd += [with_attr("nodes", (_node,)), with_attr("nodes", (_node, _node)), with_attr("nodes", [_node]), with_attr("nodes", _node), with_attr("nodes", ()),
            with_attr("nodes", (_node, 1))]
    odd += [with_raising_property(n_, x_) for n_ in ("message", "source", "positions", "nodes", "extensions", "path", "locations", "original_error")
            for x_ in (RuntimeError, KeyError)]
    for src_v, pos_v in (("abc", ["x"]), ("abc", 5), ("abc", [1, "2"]), ("abc", None), (5, [1]), ("", [0])):
        e = with_attr("source", src_v)
        e.positions = pos_v
        odd.append(e)
    return odd + [Exception("e"), ValueError("v"), KeyError("k"), StopIteration(), StrRaises(), GraphQLError("g"),
            GraphQLError("g2", extensions={"a": 1}), WithExt("w"), ZeroDivisionError(), AttributeError("a"),
            UnicodeDecodeError("utf-8", b"\xff", 0, 1, "bad"), OSError(5, "io"), AssertionError(), TypeError("t"),
            RecursionError("r"), MemoryError(), NotImplementedError(), LookupError(), type("Custom", (Exception,), {})("c")]


SOURCES = [
    "{ f }", "{ f(a: \"x\") g { x nn g { x } } n }", "query Q($v: String, $i: Int = 1) { f(a: $v, i: $i) }",
    "query A { f } query B { n }", "mutation M($x: Int!) { m(x: $x) }", "{ lst { x nn } u { ... on G { x } } it { x } }",
    "{ g { nn } }", "{ n }", "query ($o: In) { f(o: $o) }", "query ($l: [Int!]) { f(l: $l) }", "query ($e: Color) { f(e: $e) }",
    "{ unknown }", "{ f(zzz: 1) }", "{ f", "", "   ", "\ufeff", "{ f(a: \"\\", "{ f(a: \"\\u12", "fragment F on Query { f }", "{ ...F }",
    "{ ...F } fragment F on Query { ...F }", "mutation { ...F } fragment F on Mutation { ...F }", "subscription { ...A } fragment A on Query { ...B } fragment B on Query { ...A }",
    "mutation { ...F @defer } fragment F on Mutation { m(x: 1) @stream ...F }",
    # directives that the executor knows (stream / defer / skip / include) at places and with arguments validation has to cope with
    "{ u { __typename @stream } }", "{ u { ... on G @stream { x } } it { ...F2 @stream } } fragment F2 on I { x }", "{ __typename @stream g { __typename @stream(if: 1) } }",
    "subscription { ... @defer(if: null) { f } }", "subscription { ... @defer(label: 1) { f } ...F3 @defer(if: \"x\") } fragment F3 on Query { f }",
    "subscription { f @skip(if: null) }", "{ f @skip(if: null) @include(if: 1) }", "{ lst @stream(initialCount: -1) { x } }", "{ lst @stream(initialCount: \"a\", label: 5) { x } ... @defer(label: [1]) { f } }",
    "mutation { m(x: 1) @stream ... @defer(if: $nope) { m(x: 2) } }", "subscription { f }", "{ __typename __schema { types { name } } }", "{ f @skip(if: $nope) }",
    "query ($v: Nope) { f }", "type T { a: Int }", "query ($v: ID, $i: Float, $x: Boolean) { f(a: $v) }", "query ($o: [In!]!, $e: [[Color]]) { f }",
    "query ($v: String = \"d\", $x: Int! = 1, $l: [Int!] = [1], $o: In = {a: 2}, $i: Int) { f(a: $v, i: $i, l: $l, o: $o) m: f(i: $x) }", "{ f(a: $v) }", "query ($v: String!) { f(a: $v) }", "{ g { g { g { g { nn } } } } }",
]

# documents that parse although something is said twice (input object fields, arguments, variables, directives, names), with
# the field that carries it selected twice: validation rules that compare or sort such nodes must report, not raise
DUP_ARGS = ["(o: {a: 1, a: 2})", "(o: {a: 1, a: 1})", "(o: {c: {a: 1, a: 2}, abc: 1})", "(o: {b: [\"x\", \"x\"], b: []})", "(a: \"x\", a: \"y\")",
            "(o: {a: $v, a: $v})", "(l: [1, 1], l: [1])", "(o: {abc: 1, medium: 2, abc: 3, greenish: 4, medium: 5})", "(o: [{a: 1, a: 2}])", "(e: RED, e: RED)"]
DUP_SHAPES = ["{ f%s f%s }", "{ x: f%s x: f%s }", "{ f%s ...F } fragment F on Query { f%s }", "query ($v: Int, $v: Int) { f%s n f%s }",
              "{ f%s @skip(if: false) @skip(if: false) f%s }", "{ ...F ...F } fragment F on Query { f%s } fragment F on Query { f%s }",
              "query Q { f%s } query Q { f%s }", "{ g { x } f%s g { x x: nn } f%s }"]
SOURCES += [sh % (a, b) for sh in DUP_SHAPES for a in DUP_ARGS for b in (a, DUP_ARGS[0])][::3]

VARIABLES = [None, {}, {"v": "s"}, {"v": 1}, {"v": None}, {"x": 1}, {"x": "1"}, {"x": 2 ** 40}, {"x": float("nan")}, {"x": None},
             {"o": {"a": 1}}, {"o": {"a": None}}, {"o": {"zzz": 1}}, {"o": []}, {"o": {"c": {"c": {"a": "x"}}}}, {"l": [1, None]}, {"l": 1},
             {"l": "x"}, {"l": (1, 2)}, {"e": "RED"}, {"e": "PURPLE"}, {"e": 1}, {"i": True}, {"i": 1.5}, {"i": float("inf")},
             {"extra": object()}, {"v": b"bytes"}, {"v": ["a"]}, {"o": {"b": "single"}}, {"i": 10 ** 400}]

OP_NAMES = [None, "Q", "A", "B", "Nope", "", "M"]
# names that mean something to the implementation language (attributes of enum classes, dunder names, keywords): wherever the
# grammar wants one name out of a fixed set, such a name is just a wrong name
PYNAMES = ["mro", "__doc__", "__members__", "__class__", "_member_map_", "name", "value", "__init__", "__dict__", "None", "True", "self", "__module__",
           "_value2member_map_", "__name__", "real", "__len__", "QUERY ", "query", "Query", "FIELD_DEFINITIONS"]
PY_TEMPLATES = ["directive @d on %s\n{ f }", "directive @d on FIELD | %s\n{ f }", "{ f(e: %s) }", "query ($e: Color = %s) { f(e: $e) }", "{ %s }", "%s Q { f }",
                "enum E { %s } { f }", "{ f @%s }", "{ f @skip(%s: true) }", "extend schema { %s: Query } { f }", "{ ... on %s { f } }", "type %s { a: Int } { f }",
                "query ($v: %s) { f }", "{ f(o: {%s: 1}) }", "schema { %s: Query } { f }", "fragment %s on Query { f } { f }", "{ %s: f }", "{ f(%s: 1) }"]
VAR_SOURCES = [x for x in SOURCES if "($" in x or "( $" in x]
ABSTRACT_SOURCES = ["{ u { ... on G { x } } }", "{ it { x } g { g { x } } u { __typename } }", "{ it { x ... on G { nn } } }", "{ a: u { __typename } b: it { x } f }",
                    "{ u { ... on G { s g { x } } } n }", "{ it { __typename } }"]

# keys whose case mappings change their length, empty / long / non-identifier keys
ODD_KEYS = ["\u0130\u0130\u0130", "a\u0130", "\u00df", "\u0149a", "A", "", "a" * 300, "a b", "\ud800", "\x00", "__proto__", "c ", "B", "\u01f0\u01f0"]


def value_palette(rng, depth=0):
    """Python values a caller may put into a variables mapping: JSON values and the natives around them"""
    import decimal
    import fractions
    k = rng.randrange(34)
    if k == 0:
        return 10 ** rng.choice([5000, 4300, 4299, 10000])
    if k == 1:
        return -(10 ** 5000)
    if k == 2:
        return {rng.choice(ODD_KEYS): rng.choice([1, None, "x"]) for _ in range(rng.randint(1, 3))}
    if k == 3:
        d = cur = {}
        for _ in range(rng.choice([3, 30, 90])):
            cur["c"] = {}
            cur = cur["c"]
        cur[rng.choice(["a", "zzz"] + ODD_KEYS)] = rng.choice([1, "x", None, 10 ** 5000])
        return d
    if k == 4:
        v = rng.choice([1, "x", None])
        for _ in range(rng.choice([2, 20, 90])):
            v = [v]
        return v
    if k == 5:
        lst = [1]
        lst.append(lst)
        return lst
    if k == 6:
        return rng.choice([float("nan"), float("inf"), -float("inf"), -0.0, 1e308, 5e-324, 2.0 ** 31, -2.0 ** 31 - 1, 1.0])
    if k == 7:
        return rng.choice([True, False, 0, -1, 2 ** 31 - 1, 2 ** 31, -2 ** 31, -2 ** 31 - 1, 2 ** 53 + 1])
    if k == 8:
        return rng.choice([b"bytes", bytearray(b"ba"), (1, 2), {1, 2}, frozenset({"a"}), range(3), 1 + 2j, decimal.Decimal("1.5"), fractions.Fraction(1, 3), object(),
                           type("S", (str,), {})("sub"), type("D", (dict,), {})(a=1), type("I", (int,), {})(7), Ellipsis, NotImplemented, int, len])
    if k == 9:
        return rng.choice(["", "\ud800", "\x00", "a" * 5000, "RED", "red", "1", "true", "null", "\u0130" * 3, "\U0001f600"])
    if k == 10 and depth < 3:
        return [value_palette(rng, depth + 1) for _ in range(rng.randint(0, 3))]
    if k == 11 and depth < 3:
        return {rng.choice(["a", "b", "c", "zzz"] + ODD_KEYS): value_palette(rng, depth + 1) for _ in range(rng.randint(0, 3))}
    if k == 12:
        return {rng.choice([1, None, (1, 2), 1.5, True, b"k"]): 1}       # non-string keys
    return rng.choice([None, 1, "s", 1.5, {"a": 1}, [1, 2], {"b": ["x"]}, {"c": {"a": 2}}])


def safe_repr(v, depth=0):
    """repr that cannot fail or explode (huge ints, self-referential or very deep values)"""
    if isinstance(v, int) and not isinstance(v, bool):
        return f"<int of {v.bit_length()} bits>" if v.bit_length() > 200 else repr(v)
    if depth > 6:
        return "..."
    if isinstance(v, dict):
        return "{" + ", ".join(safe_repr(k, depth + 1) + ": " + safe_repr(x, depth + 1) for k, x in list(v.items())[:6]) + "}"
    if isinstance(v, (list, tuple)):
        return "[" + ", ".join(safe_repr(x, depth + 1) for x in v[:6]) + "]"
    try:
        return repr(v)[:120]
    except Exception:  # noqa: BLE001
        return f"<{type(v).__name__}>"


def gen_variables(rng):
    names = ["v", "x", "o", "l", "e", "i"]
    out = {}
    for n in rng.sample(names, rng.randint(1, 3)):
        out[n] = value_palette(rng)
        if n == "o" and rng.random() < 0.6:        # an input object: mostly mappings, with odd keys
            out[n] = {rng.choice(["a", "b", "c", "zzz", 1, None, 1.5] + ODD_KEYS): value_palette(rng, 2) for _ in range(rng.randint(1, 3))}
    if rng.random() < 0.1:
        out[rng.choice(ODD_KEYS + [1, None])] = 1
    return out


def enc_result(res, stage):
    """ExecutionResult -> record for Pipeline.tla (via the formatted dict, which is what a server sends)."""
    fm = res.formatted
    errs = []
    for e in fm.get("errors", []) or []:
        locs = e.get("locations")
        errs.append({
            "msgIsStr": isinstance(e.get("message"), str),
            "hasLocs": "locations" in e,
            "locs": [[l.get("line", 0), l.get("column", 0)] for l in (locs or [])] if isinstance(locs, list) else [[0, 0]],
            "hasPath": "path" in e,
            "path": wire.enc_path(e.get("path") or []),
            "extIsMap": ("extensions" not in e) or isinstance(e["extensions"], dict),
        })
    data = fm.get("data")
    return {"hasData": "data" in fm and True, "data": wire.enc_value(data, leaf_detail=False) if "data" in fm else {"t": "null"},
            "hasErrors": "errors" in fm, "errors": errs, "stage": stage}


def make_root(rng, exc_list, loop=None):
    """Root value whose resolvers misbehave in seeded ways."""
    import asyncio

    def bad(depth=0):
        r = rng.random()
        if r < 0.25:
            raise rng.choice(exc_list)
        if r < 0.35:
            return rng.choice(exc_list)     # returning an exception instance
        if r < 0.45 and loop is not None:
            async def later():
                await asyncio.sleep(0)
                raise rng.choice(exc_list)
            return later()
        return None

    class G:
        def __init__(self, d=0):
            self.d = d

        def __getattr__(self, name):
            if name.startswith("__"):
                raise AttributeError(name)
            return self._resolve(name)

        def _resolve(self, name):
            v = bad(self.d)
            if v is not None:
                return v
            r = rng.random()
            if name in ("g", "u", "it"):
                return G(self.d + 1) if (self.d < 5 and r < 0.8) else None
            if name == "lst":
                return [G(self.d + 1), None, G(self.d + 1)] if r < 0.4 else [G(self.d + 1)] if r < 0.7 else "notalist" if r < 0.8 else None
            if name in ("x", "nn", "n", "m"):
                return rng.choice([1, None, "x", 2 ** 40, 1.5, True, [1], {"a": 1}, float("nan")])
            return rng.choice(["s", None, 1, b"b", object()])
    return G()


def stage_of(schema, source):
    from graphql import parse, validate, GraphQLError
    from graphql.type import validate_schema
    if validate_schema(schema):
        return "schema"
    try:
        doc = parse(source)
    except GraphQLError:
        return "parse"
    if validate(schema, doc):
        return "validate"
    return "execute"


def _vb_chunk(cases):
    from graphql import graphql_sync, graphql, build_schema
    from graphql.type import GraphQLObjectType
    from .detloop import DetLoop
    schema = _schema()
    # type resolution misbehaves as resolvers do: per request (seeded) the resolve_type of U / I and the is_type_of of G
    # answer at once or as an awaitable, and answer, raise an exception of the palette, or return something odd
    tmode = {"rng": random.Random(0), "excs": [], "async": False}

    def type_answer(good):
        import asyncio
        rng_t = tmode["rng"]
        r = rng_t.random()

        def now():
            if r < 0.2:
                raise rng_t.choice(tmode["excs"])
            if r < 0.27:
                return rng_t.choice([None, 5, "Nope", "Query", object()])
            return good
        if tmode["async"] and rng_t.random() < 0.5:
            async def later():
                await asyncio.sleep(0)
                return now()
            return later()
        return now()
    for abstract in ("U", "I"):
        schema.type_map[abstract].resolve_type = lambda *_a: type_answer("G")
    schema.type_map["G"].is_type_of = lambda *_a: type_answer(True)
    bad_schema = build_schema("type Query { f(a: Query): String }", assume_valid=False)
    excs = exc_palette()
    out, recs = [], []
    for case in cases:
        sd, source, variables, opname, mode, use_bad = case
        if isinstance(variables, tuple):
            variables = gen_variables(random.Random(variables[1]))     # generated here: not every value can be pickled
        rng = random.Random(sd)
        tmode.update(rng=random.Random(sd + 17), excs=excs, **{"async": mode != "sync"})
        # half of the requests resolve abstract types through resolve_type, the others through is_type_of of the possible type
        use_is_type_of = sd % 2 == 0
        schema.type_map["G"].is_type_of = (lambda *_a: type_answer(True)) if use_is_type_of else None
        for abstract in ("U", "I"):
            schema.type_map[abstract].resolve_type = None if use_is_type_of else (lambda *_a: type_answer("G"))
        sch = bad_schema if use_bad else schema
        try:
            stage = stage_of(sch, source)
        except Exception as e:  # noqa: BLE001
            out.append(("stage-probe-raises", case[1:5], type(e).__name__))
            continue
        try:
            if mode == "sync":
                res = graphql_sync(sch, source, make_root(rng, excs), variable_values=variables, operation_name=opname)
            else:
                loop = DetLoop()
                try:
                    res = loop.run(graphql(sch, source, make_root(rng, excs, loop), variable_values=variables, operation_name=opname))
                finally:
                    loop.close()
        except Exception as e:  # noqa: BLE001
            out.append(("request-raises", {"source": source, "variables": safe_repr(variables), "operation_name": opname, "mode": mode},
                        {"exc": type(e).__name__, "msg": str(e)[:120] if not isinstance(e, StrRaises) else ""}))
            continue
        try:
            rec = enc_result(res, stage)
        except Exception as e:  # noqa: BLE001
            out.append(("format-raises", {"source": source, "variables": safe_repr(variables), "mode": mode}, type(e).__name__))
            continue
        rec["_case"] = {"source": source, "variables": safe_repr(variables), "operation_name": opname, "mode": mode, "seed": sd}
        recs.append(rec)
    return out, recs


def run(tier: str, rd):
    ev = Evidence(PROP, tier)
    vd = Verdicts(PROP)
    rng = random.Random(seed())
    # ---- G
    runs = [("EscAlpha", "QuotePrefix", 4 if tier == "quick" else 6, True),
            ("BlkAlpha", "BlockPrefix", 4 if tier == "quick" else 5, True)]      # every way of ending the source inside a block string
    for a in ("NumAlpha", "StrAlpha", "LayAlpha"):
        runs.append((a, "NoPrefix", 3 if tier == "quick" else 4, False))
    n_req = 0
    for alpha, prefix, maxlen, req in runs:
        cfg = (f"INIT Init\nNEXT Next\nINVARIANT Emit\nCONSTANT Alphabet <- {alpha}\nCONSTANT MaxLen = {maxlen}\n"
               f"CONSTANT Prefix <- {prefix}\nCONSTANT CheckLaws = FALSE\n")
        r = run_tlc(rd, "LexEnum", cfg, name=f"LexEnum_{alpha}", timeout=3400, heap="16g")
        ev.add_tlc(f"G {alpha} prefix={prefix} len<={maxlen}", r)
        recs = list(r.json_lines())
        if req:
            for k, rec in enumerate(recs):
                rec["req"] = (len(rec["s"]) <= 5) or (k % 7 == 0)
        for out, nr in pmap(_g_chunk, recs, chunk=5000):
            n_req += nr
            for cls, s, detail in out:
                if cls.startswith("drift"):
                    vd.note_drift("lexer accept/reject differs from Lexical.tla (C09 verdict)", {"s": s})
                    continue
                sig = {"clause": cls, "exc": detail if isinstance(detail, str) else None}
                vd.violation(cls, {"alphabet": alpha, "code_points": s, "text": lexbind.from_cps(s)}, detail, sig)
        for rec in recs:
            ev.case(rec["s"], nontrivial=not rec["r"]["ok"], key=alpha + str(rec["s"]))
        ev.traces += len(recs)
        ev.sample({"alphabet": alpha, "s": recs[-1]["s"], "spec_ok": recs[-1]["r"]["ok"], "spec_at": recs[-1]["r"]["at"]})
    # ---- V-a
    items = va_items(tier, rng)
    counts = {}
    sample_recs = []
    for out, c, recs in pmap(_va_chunk, items, chunk=200):
        for k, v in c.items():
            counts[k] = counts.get(k, 0) + v
        for cls, text, detail in out:
            vd.violation(cls, {"text": text[:400]}, detail, {"clause": cls, "exc": detail.get("exc")})
        sample_recs += recs[:3]
    for text, en in items[:2000]:
        ev.case(text, nontrivial=len(text) > 0)
    ev.evaluations += max(0, len(items) - 2000)
    # cross-check a sample against Lexical.tla: a source that does not lex cannot be accepted by any entry point
    rng.shuffle(sample_recs)
    sample_recs = [x for x in sample_recs if len(x[0]) <= 400 and x[1] != "coordinate"][: (300 if tier == "quick" else 2000)]
    cases = [{"s": lexbind.cps(t), "accepted": oc == "ok"} for t, en, oc in sample_recs]
    if cases:
        mod = r'''---- MODULE ParseLexV ----
EXTENDS Lexical, IOUtils
Cases == JsonDeserialize(IOEnv.CASES)
VARIABLE i
Init == i \in 1..Len(Cases)
Next == UNCHANGED i
Check == LET c == Cases[i] IN (c.accepted => Lex(c.s).ok) \/ PrintT(ToJson([viol |-> i, clause |-> "drift-accepted-unlexable"]))
====
'''
        p = common.write_cases(rd, "parselex.json", cases)
        r = run_tlc(rd, "ParseLexV", common.v_cfg(), extra_modules={"ParseLexV": mod}, env={"CASES": str(p)}, timeout=3000)
        ev.add_tlc("V-a sample: accepted by a parse entry point => lexes per Lexical.tla", r)
        for o in r.json_lines():
            vd.note_drift("parse entry point accepted a source Lexical.tla rejects", sample_recs[o["viol"] - 1][:2])
        ev.traces += len(cases)
    # ---- V-b
    n = 4000 if tier == "quick" else 40000
    cases = []
    for k in range(n):
        gen = k % 2 == 0
        src_k = rng.choice(VAR_SOURCES if gen and k % 8 else ABSTRACT_SOURCES if k % 5 == 1 else SOURCES)
        if k % 7 == 3:
            src_k = rng.choice(PY_TEMPLATES) % rng.choice(PYNAMES)
        # the operation name: any of the palette, but mostly one under which the request gets past operation selection
        named = re.findall(r"\b(?:query|mutation|subscription) +([A-Za-z_]\w*)", src_k)
        opn = rng.choice(OP_NAMES) if rng.random() < 0.25 else rng.choice(named + [None] if len(named) <= 1 else named)
        cases.append((seed() * 1000003 + k, src_k, ("gen", seed() * 7919 + k) if gen else rng.choice(VARIABLES), opn,
                      rng.choice(["sync", "sync", "async"]), rng.random() < 0.05))
    vrecs = []
    for out, recs in pmap(_vb_chunk, cases, chunk=50):
        for cls, c, detail in out:
            exc = detail.get("exc") if isinstance(detail, dict) else detail
            vd.violation(cls, c, detail, {"clause": cls, "exc": exc})
        vrecs += recs
    stages = {}
    for rec in vrecs:
        stages[rec["stage"]] = stages.get(rec["stage"], 0) + 1
        ev.case(rec["_case"], nontrivial=rec["hasErrors"])
    payload = [{k: v for k, v in rec.items() if k != "_case"} for rec in vrecs]
    p = common.write_cases(rd, "pipeline.json", payload)
    r = run_tlc(rd, "PipelineV", "INIT VInit\nNEXT VNext\nINVARIANT Check\nCHECK_DEADLOCK FALSE\n", env={"CASES": str(p)}, timeout=3000)
    ev.add_tlc("V-b: formatted results vs WellFormedResult (Pipeline.tla)", r)
    for o in r.json_lines():
        rec = vrecs[o["viol"] - 1]
        vd.violation("result-" + o["clause"], rec["_case"], {"stage": rec["stage"], "hasData": rec["hasData"], "nErrors": len(rec["errors"])})
    ev.traces += len(vrecs)
    r = run_tlc(rd, "Pipeline", "SPECIFICATION Spec\nINVARIANT Total\nINVARIANT NoPartialDataBeforeExecution\n", timeout=300)
    ev.add_tlc("M: pipeline stage machine is total", r)
    ev.sample({"pipeline_case": vrecs[0]["_case"], "stage": vrecs[0]["stage"], "n_errors": len(vrecs[0]["errors"])})
    ev.extra.update({"parse_entry_outcomes": counts, "parse_entry_calls": sum(counts.values()), "pipeline_requests": len(vrecs),
                     "pipeline_stage_reached": stages, "graphql_sync_on_enumerated_strings": n_req})
    ev.rule = ("G: every string '\"'+w, w over the 12-symbol escape alphabet, and every string over the 3 lexical alphabets up to the bounds "
               "(exhaustive); non-trivial = the specification rejects it. V-a: every truncation and a substitution at (sampled) positions of "
               "generated documents/values/types/coordinates incl. nesting 1..100, through the parse entry points. V-b: seeded requests "
               "(source x variables x operation name x misbehaving resolvers x sync/async); non-trivial = the result carries errors")
    ev.exhaustive = True
    ev.assumptions = ["'any exception class' = any Exception subclass (BaseExceptions such as CancelledError are outside the statement)",
                      "RecursionError beyond nesting 100 is outside the statement"]
    rc = vd.finish()
    ev.write(vd)
    return rc


if __name__ == "__main__":
    common.main_wrapper(PROP, run)
