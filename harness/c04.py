"""C04 - incremental delivery reassembles to the non-incremental response.

P-spec: Delivery.tla (Apply = the incremental-delivery format's merge rules; AssemblyClause = equality with
the reference when it is error-free or propagation is disabled, the Withheld relation otherwise).
X/V: end-to-end requests (8 fixed shapes + seeded generated ones with nested/labelled/if:false/overlapping
@defer and @stream, awaitable resolvers, async-iterator sources incl. failing ones) under exhaustive
re-execution of every settle/pull order (small requests) and seeded random schedules, early execution on and
off. The reference is the same operation executed by the base Executor (directives ignored), once as is and
once with error propagation disabled. TLC applies every payload of every trace and evaluates AssemblyClause.
"""
from __future__ import annotations

from . import common, inctraces
from .c05 import validate_traces
from .common import Evidence, Verdicts, pmap, seed

PROP = "C04"


def run(tier: str, rd):
    ev = Evidence(PROP, tier)
    vd = Verdicts(PROP)
    recs, info = inctraces.collect(tier, seed() + 17, pmap)
    for e in [r for r in recs if "_error" in r][:3]:
        vd.note_drift("reference execution raised: " + e["_error"], e["_meta"])
    recs = [r for r in recs if "_error" not in r]
    complete = [r for r in recs if r["complete"]]
    for r in recs:
        m = r["_meta"]
        ev.case(None, nontrivial=r["complete"] and len(r["subsequent"]) >= 1,
                key=common.digest([m.get("query"), m.get("early"), m.get("sched"), m.get("seed")]))
    counts = validate_traces(rd, "assembly", recs, ev, vd, "C04",
                             "V: payload traces applied per the delivery format and compared with the reference (Delivery.tla AssemblyClause)")
    kinds = {"refclean": sum(1 for r in complete if r["refclean"]), "with_errors": sum(1 for r in complete if not r["refclean"])}
    if complete:
        ev.sample({"request": complete[0]["_meta"], "n_payloads": 1 + len(complete[0]["subsequent"]), "refclean": complete[0]["refclean"]})
    ev.extra.update({"traces": len(recs), "consumed_to_the_end": len(complete), **kinds, **info, "clause_hits": counts})
    ev.rule = ("every settle/pull order up to the depth bound for 8 fixed and a few generated small requests (exhaustive re-execution), "
               "seeded random schedules for generated requests, each with early execution off and on; non-trivial = consumed to the end "
               "with >= 1 subsequent payload")
    ev.assumptions = ["the reference is produced by the base Executor (validated against Execute.tla by C02)",
                      "a list whose source raises mid-stream is null in the reference while the stream delivered its head and completed with errors: accepted",
                      "a withheld fragment that was never announced (nested in a failed one) has no id and is not reported"]
    rc = vd.finish()
    ev.write(vd)
    return rc


if __name__ == "__main__":
    common.main_wrapper(PROP, run)
