"""C04 - incremental delivery reassembles to the non-incremental response.

P-spec: Delivery.tla (Apply = the incremental-delivery format's merge rules; AssemblyClause = equality with
the reference when it is error-free or propagation is disabled, the Withheld relation otherwise).
X/V: end-to-end requests (8 fixed shapes + seeded generated ones with nested/labelled/if:false/overlapping
@defer and @stream, awaitable resolvers, async-iterator sources incl. failing ones) under exhaustive
re-execution of every settle/pull order (small requests) and seeded random schedules, early execution on and
off. The reference is the same operation executed by the base Executor (directives ignored), once as is and
once with error propagation disabled. TLC applies every payload of every trace and evaluates AssemblyClause.
"""
from __future__ import annotations

import json
import random

from . import common, inctraces, plan
from .c05 import validate_traces
from .common import Evidence, Verdicts, pmap, seed, run_tlc

PROP = "C04"


def _plan_chunk(jobs):
    out = []
    for kind, payload, early in jobs:
        doc = payload if kind == "doc" else plan.gen_doc(random.Random(payload))
        if doc is None:
            continue
        try:
            rec = plan.observe(doc, early)
        except Exception as e:  # noqa: BLE001
            out.append({"_error": f"{type(e).__name__}: {str(e)[:200]}", "_text": plan.render(doc), "_early": early})
            continue
        rec["_early"], rec["_source"] = early, kind
        out.append(rec)
    return out


def plan_binding(tier, rd, ev, vd):
    """Plan.tla: M (invariants on every document up to MaxNodes), G (TLC's documents executed on the real executor),
    V (seeded larger documents), all judged by PlanV.tla."""
    big, small = (5, 4) if tier == "quick" else (6, 5)
    cfg = "INIT Init\nNEXT Next\nCONSTANT MaxNodes = %d\nCONSTANT Emit = %s\nINVARIANT InvPartition\nINVARIANT InvAntichain\nINVARIANT InvClosed\nINVARIANT InvNested\nINVARIANT InvEmit\nCHECK_DEADLOCK FALSE\n"
    r = run_tlc(rd, "MCPlan", cfg % (big, "FALSE"), name="MCPlanM", timeout=3000, heap="16g")
    ev.add_tlc(f"M: Plan.tla - Partition, Antichain (WellFormedWork), Closed, Nested on every document with <= {big} nodes", r)
    r = run_tlc(rd, "MCPlan", cfg % (small, "TRUE"), name="MCPlanG", timeout=3000, heap="16g")
    ev.add_tlc(f"G: every complete document with <= {small} nodes, emitted for the replay", r)
    docs = [json.loads(o) if isinstance(o, str) else o for o in r.json_lines()]
    jobs = [("doc", d["doc"], e) for d in docs for e in (False, True)]
    n = 1500 if tier == "quick" else 20000
    base = seed() * 1000000 + 400000
    jobs += [("seed", base + k, k % 2 == 1) for k in range(n)]
    jobs += [("doc", d, e) for d in plan.shaped_docs() for e in (False, True)]
    recs = []
    for lst in pmap(_plan_chunk, jobs, chunk=100):
        recs += lst
    for e in [x for x in recs if "_error" in x][:5]:
        vd.violation("plan-domain-request-raises", {"query": e["_text"], "early": e["_early"]}, e["_error"])
    recs = [x for x in recs if "_error" not in x]
    for x in recs:
        if not x["_clean_ok"]:
            vd.violation("assembled-differs-from-reference", {"query": x["_text"], "early": x["_early"], "domain": "plan"}, None)
    hits = {}
    for bi in range(0, len(recs), 4000):
        batch = recs[bi:bi + 4000]
        p = common.write_cases(rd, f"plan{bi}.json", [{k: v for k, v in x.items() if not k.startswith("_")} for x in batch])
        r = run_tlc(rd, "PlanV", common.v_cfg(), name=f"PlanV{bi}", env={"CASES": str(p)}, timeout=3000, heap="16g")
        ev.add_tlc(f"V: {len(batch)} recorded plans / failure runs vs Plan.tla (PlanOf, LossExplained)", r)
        for o in r.json_lines():
            x = batch[o["viol"] - 1]
            hits[o["clause"]] = hits.get(o["clause"], 0) + 1
            case = {"query": x["_text"], "early": x["_early"], "failed": x["failed"], "lost": x["lost"]}
            if o["clause"].startswith("drift"):
                vd.note_drift("Plan.tla: " + o["clause"], case)
            else:
                # signature: is every lost leaf held by an execution group of >= 2 delivery groups, one of them failed and
                # every surviving one nested (announced only when its parent completes)?
                failed = set(x["failed"])
                dus = {(tuple(e["path"]), e["key"]): e["dus"] for e in x["execs"]}
                def f37(l):
                    d = dus.get((tuple(l["path"]), l["key"]), [])
                    alive = [c for c in d if not failed & set(c)]
                    return len(d) >= 2 and len(alive) < len(d) and bool(alive) and all(len(c) >= 2 for c in alive)
                vd.violation(o["clause"], case, None, {"clause": o["clause"], "shared_with_failed_and_nested": all(f37(l) for l in x["lost"])})
    ev.traces += len(recs)
    for x in recs:
        ev.case(None, nontrivial=len(x["tasks"]) >= 2, key=x["_text"] + str(x["_early"]))
    ev.extra.update({"plan_documents_from_tlc": len(docs), "plan_records": len(recs), "plan_failure_runs": sum(1 for x in recs if x["failed"]),
                     "plan_records_with_lost_leaves": sum(1 for x in recs if x["lost"]), "plan_clause_hits": hits})


def run(tier: str, rd):
    ev = Evidence(PROP, tier)
    vd = Verdicts(PROP)
    plan_binding(tier, rd, ev, vd)
    recs, info = inctraces.collect(tier, seed() + 17, pmap)
    for e in [r for r in recs if "_error" in r][:3]:
        vd.note_drift("reference execution raised: " + e["_error"], e["_meta"])
    recs = [r for r in recs if "_error" not in r]
    complete = [r for r in recs if r["complete"]]
    for r in recs:
        m = r["_meta"]
        ev.case(None, nontrivial=r["complete"] and len(r["subsequent"]) >= 1,
                key=common.digest([m.get("query"), m.get("early"), m.get("sched"), m.get("seed")]))
    counts = validate_traces(rd, "assembly", recs, ev, vd, "C04",
                             "V: payload traces applied per the delivery format and compared with the reference (Delivery.tla AssemblyClause)")
    kinds = {"refclean": sum(1 for r in complete if r["refclean"]), "with_errors": sum(1 for r in complete if not r["refclean"])}
    if complete:
        ev.sample({"request": complete[0]["_meta"], "n_payloads": 1 + len(complete[0]["subsequent"]), "refclean": complete[0]["refclean"]})
    ev.extra.update({"traces": len(recs), "consumed_to_the_end": len(complete), **kinds, **info, "clause_hits": counts})
    ev.rule = ("every settle/pull order up to the depth bound for 8 fixed and a few generated small requests (exhaustive re-execution), "
               "seeded random schedules for generated requests, each with early execution off and on; non-trivial = consumed to the end "
               "with >= 1 subsequent payload")
    ev.assumptions = ["the reference is produced by the base Executor (validated against Execute.tla by C02)",
                      "a list whose source raises mid-stream is null in the reference while the stream delivered its head and completed with errors: accepted",
                      "a withheld fragment that was never announced (nested in a failed one) has no id and is not reported"]
    rc = vd.finish()
    ev.write(vd)
    return rc


if __name__ == "__main__":
    common.main_wrapper(PROP, run)
