"""Binding of spec/AsyncExec.tla (I-spec of the executor's scheduling) to the real executor - part of C03.

Gates are decided by the arithmetic rule of AsyncExec.tla (a function of the response path), so that TLC can predict,
from the abstract request alone, which gates exist at every moment:
  * a resolver result is an awaitable iff ResGated(path),
  * a list produced by a resolver carries awaitable items iff ListAwaitables(path), item k is one iff ItemGated(path+k),
  * abstract types are resolved synchronously, there are no async iterators (first version of the I-spec).
Every completion order of the gates (exhaustively while the budget lasts) is run on the real executor; after each
settle the set of pending gates, whether the response is available, and finally the nulled positions are recorded.
TLC (MCAsyncExec.tla) (M) explores every order on the model and checks confluence with Execute.tla, progress, seriality
and that only orphans outlive the response; (V) replays each recorded order on the model and compares step by step.
Differences are MODEL-DRIFT (the property verdict on the same runs is AsyncV.tla's).
"""
from __future__ import annotations

import asyncio
import random

from . import gqlmini, wire
from .detloop import DetLoop, NoQuiescence

MOD = 16


def key_numbers(doc):
    names = {"__typename"}

    def walk(sels):
        for sl in sels:
            if sl["k"] == "F":
                names.add(sl["alias"] or sl["name"])
            if "sel" in sl:
                walk(sl["sel"])
    walk(doc["sel"])
    for fr in doc["frags"].values():
        walk(fr["sel"])
    return {n: k + 1 for k, n in enumerate(sorted(names))}


class GateRule:
    def __init__(self, salt, thr, num):
        self.salt, self.thr, self.num = salt, thr, num

    def h(self, path, salt):
        s = 0
        for k, e in enumerate(path, start=1):
            s += (k * 7 + 3) * (self.num[e] if isinstance(e, str) else e + 1)
        return (s + salt) % MOD

    def res_gated(self, path):
        return self.h(path, self.salt) < self.thr

    def list_mode(self, path):
        return self.h(path, self.salt + 5) % 3          # 0 awaitable items, 1 plain, 2 async iterator

    def list_awaitables(self, path):
        return self.list_mode(path) == 0

    def step_gated(self, path, k):
        return self.h(list(path) + [k], self.salt + 17) < self.thr

    def item_gated(self, path):
        return self.h(path, self.salt + 11) < self.thr

    def wire(self):
        return {"salt": self.salt, "thr": self.thr, "mod": MOD, "num": self.num}


def enc_gate(p):
    """response path of a gate; the k-th step of an async iterator is written path + {"n": k}"""
    return [({"n": e[1]} if isinstance(e, tuple) else {"s": e} if isinstance(e, str) else {"i": e}) for e in p]


def parse_key(key):
    return [int(p) if p.isdigit() else p for p in key.split("/")]


class MRun:
    def __init__(self, case, rule, op):
        from graphql import parse
        from graphql.execution import execute
        self.loop = DetLoop()
        self.gates = {}            # tuple(path) -> future
        self.rule = rule
        self.result = None
        self.raised = None
        self.hang = False
        doc = parse(gqlmini.render_doc(case, op))
        asyncio.events._set_running_loop(self.loop)
        try:
            r = execute(gqlmini.schema(), doc, gqlmini.to_py(case["root"]), variable_values=gqlmini.render_vars(case),
                        field_resolver=gqlmini.make_resolver([], self.wrap), type_resolver=gqlmini.type_resolver)
        finally:
            asyncio.events._set_running_loop(None)
        if asyncio.iscoroutine(r) or asyncio.isfuture(r):
            self.task = self.loop.create_task(self._await(r))
        else:
            self.result = r
        self._q()

    async def _await(self, r):
        try:
            self.result = await r
        except Exception as e:  # noqa: BLE001
            self.raised = e

    def _q(self):
        try:
            self.loop.quiesce(20000)
        except NoQuiescence:
            self.hang = True

    def gate(self, path):
        f = self.gates[tuple(path)] = self.loop.create_future()
        return f

    def wrap(self, key, thunk):
        path = parse_key(key)
        if not self.rule.res_gated(path):
            return self.listify(path, thunk())

        async def later():
            await self.gate(path)
            return self.listify(path, thunk())
        return later()

    def listify(self, path, v):
        if not isinstance(v, list):
            return v
        run = self
        if self.rule.list_mode(path) == 2:
            class AIter:
                def __init__(self):
                    self.i = 0

                def __aiter__(self):
                    return self

                async def __anext__(self):
                    k = self.i
                    if run.rule.step_gated(path, k):
                        await run.gate(list(path) + [("n", k)])
                    if k >= len(v):
                        raise StopAsyncIteration
                    self.i += 1
                    return v[k]

                async def aclose(self):
                    pass
            return AIter()
        if not self.rule.list_awaitables(path):
            return v

        def item(i, x):
            ip = path + [i]
            if not run.rule.item_gated(ip):
                return x

            async def aw():
                await run.gate(ip)
                if isinstance(x, Exception):
                    raise x
                return x
            return aw()
        return [item(i, x) for i, x in enumerate(v)]

    def pending(self):
        return sorted((p for p, f in self.gates.items() if not f.done()), key=lambda p: [str(e) for e in p])

    def settle(self, p):
        self.gates[p].set_result(None)
        self._q()

    def ready(self):
        return self.result is not None or self.raised is not None

    def close(self):
        for t in self.loop.pending_tasks():
            t.cancel()
        try:
            self.loop.quiesce(20000)
        except NoQuiescence:
            pass
        self.loop.close()


def nulled_positions(res):
    """shortest prefix of each error path at which the data is null"""
    out = set()
    for e in res.errors or []:
        path = list(e.path or [])
        cur = res.data
        k = 0
        while k < len(path) and cur is not None:
            try:
                cur = cur[path[k]]
            except (KeyError, IndexError, TypeError):
                cur = None
            k += 1
        # position k steps deep is the first null (or the whole path exists)
        if cur is None:
            out.add(tuple(path[:k] if res.data is not None else []))
        else:
            out.add(tuple(path))
    return [wire.enc_path(list(p)) for p in sorted(out, key=lambda p: [str(e) for e in p])]


def explore(case, rule, op, budget, rng):
    """-> (runs, exhaustive): every completion order by re-execution while the budget lasts, random orders beyond"""
    runs, count = [], 0

    def execute_order(order, then_random=False):
        nonlocal count
        r = MRun(case, rule, op)
        count += 1
        rec = {"initial": [enc_gate(p) for p in r.pending()], "steps": [], "readyAfter": 0 if r.ready() else -1}
        k = 0
        while True:
            pend = r.pending()
            if not pend or r.hang:
                break
            if k < len(order):
                g = tuple(tuple(e) if isinstance(e, list) else e for e in order[k])
                if g not in pend:
                    r.close()
                    return None, None
            elif then_random:
                g = rng.choice(pend)
            else:
                break
            r.settle(g)
            k += 1
            rec["steps"].append({"g": enc_gate(g), "pending": [enc_gate(p) for p in r.pending()]})
            if rec["readyAfter"] < 0 and r.ready():
                rec["readyAfter"] = k
        rest = r.pending()
        rec["_hang"] = r.hang
        rec["_raised"] = repr(r.raised) if r.raised else None
        rec["nulled"] = nulled_positions(r.result) if r.result is not None else []
        if rec["readyAfter"] < 0:
            rec["readyAfter"] = 10 ** 6
        r.close()
        return rec, rest

    def rec_(prefix):
        if count >= budget:
            return
        rec, rest = execute_order(prefix)
        if rec is None:
            return
        if not rest or rec["_hang"]:
            runs.append(rec)
            return
        for g in rest:
            rec_(prefix + [list(g)])
    rec_([])
    exhaustive = count < budget
    extra = 0
    while not exhaustive and extra < max(4, budget // 4):
        rec, _rest = execute_order([], then_random=True)
        if rec is not None:
            runs.append(rec)
        extra += 1
    return runs, exhaustive


def make_records(seeds, tier):
    from graphql import parse, validate
    out = []
    for sd in seeds:
        rng = random.Random(sd)
        op = "mutation" if rng.random() < 0.3 else "query"
        case = gqlmini.gen_case(sd, depth=rng.choice([2, 2, 3]), op=op)
        text = gqlmini.render_doc(case, op)
        try:
            if validate(gqlmini.schema(), parse(text)):
                continue
        except Exception:  # noqa: BLE001
            continue
        from graphql import execute_sync
        ref = execute_sync(gqlmini.schema(), parse(text), gqlmini.to_py(case["root"]), variable_values=gqlmini.render_vars(case),
                           field_resolver=gqlmini.make_resolver([]), type_resolver=gqlmini.type_resolver)
        if ref.data is None and ref.errors and all(not e.path for e in ref.errors):
            continue          # a request error: nothing is executed (C02's subject)
        rule = GateRule(rng.randrange(MOD), rng.choice([4, 8, 12, 16]), key_numbers(case["doc"]))
        runs, exhaustive = explore(case, rule, op, 40 if tier == "quick" else 200, rng)
        bad = [r for r in runs if r["_hang"] or r["_raised"]]
        rec = dict(case)
        rec["gate"] = rule.wire()
        rec["serial"] = op == "mutation"
        rec["runs"] = [{k: v for k, v in r.items() if not k.startswith("_")} for r in runs if not (r["_hang"] or r["_raised"])]
        rec["_meta"] = {"seed": sd, "query": text, "variables": gqlmini.render_vars(case), "gate": {k: v for k, v in rule.wire().items() if k != "num"},
                        "exhaustive": exhaustive, "orders": len(runs), "failed_runs": [(r["_hang"], r["_raised"]) for r in bad][:3]}
        out.append(rec)
    return out
