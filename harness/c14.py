"""C14 - field-merge validation accepts exactly what the specification accepts.

P-spec: FieldMerge.tla - FieldsInSetCanMerge / SameResponseShape transcribed from the specification, applied to
every selection set of the document with fragments expanded under a visited set (total on cyclic spreads).
V: seeded documents over a schema with objects, an interface, a union and list / non-null wrapped leaves:
   aliases colliding on purpose, nested and mutually recursive fragments, the same fragment reached under
   exclusive and non-exclusive parents, differing arguments incl. variables and input objects in either key
   order, aliased __typename. The real OverlappingFieldsCanBeMergedRule runs under a watchdog; TLC evaluates
   SpecConflict on every recorded document: the rule reports >= 1 error iff the specification finds a conflict.
"""
from __future__ import annotations

import random
import signal

from . import common
from .common import Evidence, Verdicts, run_tlc, pmap, seed

PROP = "C14"
N = lambda n: ["N", n]      # noqa: E731
L = lambda t: ["L", t]      # noqa: E731
NN = lambda t: ["NN", t]    # noqa: E731
TYPES = {
    "Int": {"kind": "SCALAR", "fields": {}, "possible": []}, "String": {"kind": "SCALAR", "fields": {}, "possible": []},
    "Query": {"kind": "OBJECT", "possible": [], "fields": {"a": N("A"), "b": N("B"), "i": N("I"), "u": N("U"), "n": N("Int"), "s": N("String"),
                                                          "l": L(N("Int")), "nn": NN(N("Int")), "la": L(N("A")), "lla": L(L(N("A")))}},
    "A": {"kind": "OBJECT", "possible": [], "fields": {"x": N("Int"), "y": N("String"), "z": L(N("Int")), "w": NN(N("Int")), "o": N("A"), "f": N("Int"),
                                                      "i": N("I"), "m": L(NN(N("Int")))}},
    "B": {"kind": "OBJECT", "possible": [], "fields": {"x": N("Int"), "y": N("Int"), "z": N("Int"), "w": N("Int"), "o": N("B"), "f": N("Int"),
                                                      "i": N("I"), "m": NN(L(N("Int")))}},
    "I": {"kind": "INTERFACE", "possible": ["A", "B"], "fields": {"x": N("Int"), "f": N("Int"), "i": N("I")}},
    "U": {"kind": "UNION", "possible": ["A", "B"], "fields": {}},
}
ABS = {"query": "Query", "types": TYPES}


def tstr(t):
    return t[1] if t[0] == "N" else ("[" + tstr(t[1]) + "]" if t[0] == "L" else tstr(t[1]) + "!")


def sdl():
    out = ["input In { k: Int, j: Int, n: In, l: [[In]] }"]
    for n, d in TYPES.items():
        if d["kind"] == "SCALAR":
            continue
        if d["kind"] == "UNION":
            out.append(f"union {n} = " + " | ".join(d["possible"]))
            continue
        impl = " implements I" if n in ("A", "B") else ""
        kw = "interface" if d["kind"] == "INTERFACE" else "type"
        fs = " ".join(("f(arg: Int, obj: In, lo: [In], ll: [[In]]): Int" if f == "f" else f"{f}: {tstr(t)}") for f, t in d["fields"].items())
        out.append(f"{kw} {n}{impl} {{ {fs} }}")
    return "\n".join(out)


# (normalised argument value for the specification, text); object fields in either key order normalise equally
ARGS = [("", ""), ("arg:1", "(arg: 1)"), ("arg:2", "(arg: 2)"), ("arg:$v", "(arg: $v)"), ("arg:$w", "(arg: $w)"),
        ("obj:{j:2,k:1}", "(obj: {k: 1, j: 2})"), ("obj:{j:2,k:1}", "(obj: {j: 2, k: 1})"), ("obj:{j:2,k:$v}", "(obj: {j: 2, k: $v})"),
        ("arg:1,obj:{j:2,k:1}", "(obj: {k: 1, j: 2}, arg: 1)"), ("arg:1,obj:{j:2,k:1}", "(arg: 1, obj: {j: 2, k: 1})"),
        # input objects below lists, lists of lists and other objects: key order is immaterial at every depth, item order is not
        ("lo:[{j:2,k:1}]", "(lo: [{k: 1, j: 2}])"), ("lo:[{j:2,k:1}]", "(lo: [{j: 2, k: 1}])"),
        ("ll:[[{j:2,k:1}]]", "(ll: [[{k: 1, j: 2}]])"), ("ll:[[{j:2,k:1}]]", "(ll: [[{j: 2, k: 1}]])"), ("ll:[[{j:2,k:2}]]", "(ll: [[{k: 2, j: 2}]])"),
        ("ll:[[{j:2,k:1}],[{j:3,k:1}]]", "(ll: [[{k: 1, j: 2}], [{j: 3, k: 1}]])"), ("ll:[[{j:2,k:1}],[{j:3,k:1}]]", "(ll: [[{j: 2, k: 1}], [{k: 1, j: 3}]])"),
        ("ll:[[{j:3,k:1}],[{j:2,k:1}]]", "(ll: [[{j: 3, k: 1}], [{k: 1, j: 2}]])"),
        ("obj:{j:2,n:{j:1,k:2}}", "(obj: {n: {k: 2, j: 1}, j: 2})"), ("obj:{j:2,n:{j:1,k:2}}", "(obj: {j: 2, n: {j: 1, k: 2}})"),
        ("obj:{l:[[{j:1,k:$v}]]}", "(obj: {l: [[{k: $v, j: 1}]]})"), ("obj:{l:[[{j:1,k:$v}]]}", "(obj: {l: [[{j: 1, k: $v}]]})")]


class Gen:
    def __init__(self, rnd):
        self.rnd, self.sid = rnd, 0

    def ss(self, items):
        self.sid += 1
        return {"id": self.sid, "items": items}

    def sel(self, tn, depth, frags):
        rnd = self.rnd
        d = TYPES[tn]
        items = []
        for _ in range(rnd.randint(1, 3)):
            r = rnd.random()
            if r < 0.2 and frags:
                items.append({"k": "S", "name": rnd.choice(frags)})
            elif r < 0.4 and depth > 0:
                on = rnd.choice(["", "A", "B", "I", "U"])
                items.append({"k": "I", "on": on, "sel": self.sel(on or tn, depth - 1, frags)})
            elif r < 0.47 or not d["fields"]:
                items.append({"k": "F", "alias": rnd.choice(["", "p", "x"]), "name": "__typename", "args": "", "text": "", "sel": self.ss([])})
            else:
                f = rnd.choice(list(d["fields"]))
                t = d["fields"][f]
                while t[0] != "N":
                    t = t[1]
                leaf = TYPES[t[1]]["kind"] == "SCALAR"
                if not leaf and depth <= 0:
                    continue
                a = rnd.choice(ARGS) if f == "f" else ARGS[0]
                items.append({"k": "F", "alias": rnd.choice(["", "", "p", "q", "x"]), "name": f, "args": a[0], "text": a[1],
                              "sel": self.ss([]) if leaf else self.sel(t[1], depth - 1, frags)})
        if not items:
            items = [{"k": "F", "alias": "", "name": "__typename", "args": "", "text": "", "sel": self.ss([])}]
        return self.ss(items)


def family(rnd, g):
    """Targeted shapes for the memo of compared pairs: the same (selection set, fragment) or (fragment, fragment) pair
    is compared once below mutually exclusive parents and once below non-exclusive parents, in either document
    order; the conflict between them is by name, by arguments, or by shape."""
    def F(name, alias="", args=("", ""), sel=None):
        return {"k": "F", "alias": alias, "name": name, "args": args[0], "text": args[1], "sel": sel if sel is not None else g.ss([])}

    def I(on, items):       # noqa: E743
        return {"k": "I", "on": on, "sel": g.ss(items)}

    def S(name):
        return {"k": "S", "name": name}
    kind = rnd.choice(["name", "args", "shape", "none", "same-args", "same-args"])
    if kind == "name":
        left, right = F("x", "p"), F("f", "p")
    elif kind == "args":
        left, right = F("f", "p", ARGS[1]), F("f", "p", rnd.choice([ARGS[2], ARGS[3], ARGS[0]]))
    elif kind == "same-args":
        # the same argument values spelled differently (key order of input objects at any depth): no conflict
        a1 = rnd.choice([a for a in ARGS if sum(1 for b in ARGS if b[0] == a[0]) > 1])
        a2 = rnd.choice([b for b in ARGS if b[0] == a1[0] and b[1] != a1[1]])
        left, right = F("f", "p", a1), F("f", "p", a2)
    elif kind == "shape":
        left, right = F("x", "p"), F("i", "p", sel=g.ss([F("x")]))
    else:
        left, right = F("x", "p"), F("x", "p")
    host = rnd.choice(["i", "i", "o"])            # the field inside F and G that carries the two sides
    via_y = rnd.random() < 0.7
    frags = {
        "F": {"on": "I", "sel": g.ss([F(host if host == "i" else "i", sel=g.ss([left]))])},
        "G": {"on": "I", "sel": g.ss([F(host if host == "i" else "i", sel=g.ss([S("Y")] if via_y else [right]))])},
    }
    if via_y:
        frags["Y"] = {"on": "I", "sel": g.ss([right])}
    excl = F("i", rnd.choice(["", "e"]), sel=g.ss([I("A", [F("i", sel=g.ss([S("F")]))]), I("B", [F("i", sel=g.ss([S("G")]))])]))
    nonexcl = F("i", "q", sel=g.ss([S("F"), S("G")]) if rnd.random() < 0.7 else g.ss([I("A", [S("F")]), I("", [S("G")])]))
    extra = [g.sel("Query", 1, [])["items"][0]] if rnd.random() < 0.3 else []
    items = [excl, nonexcl] if rnd.random() < 0.5 else [nonexcl, excl]
    rnd.shuffle(extra)
    return g.ss(items + extra), frags


def triple(rnd, g):
    """Three or more fields with one response name in one field map (directly, through inline fragments or a spread),
    in every order: only one pair of them may be in conflict - every pair has to be compared, not only neighbours."""
    def F(name, alias="", args=("", ""), sel=None):
        return {"k": "F", "alias": alias, "name": name, "args": args[0], "text": args[1], "sel": sel if sel is not None else g.ss([])}
    kind = rnd.choice(["name", "args", "shape", "sub", "none"])
    host = rnd.choice(["a", "i", "u"])
    if kind == "name":
        same, other = F("x", "p"), F("f", "p")
    elif kind == "args":
        same, other = F("f", "p", ARGS[1]), F("f", "p", rnd.choice([ARGS[2], ARGS[0]]))
    elif kind == "shape":
        same, other = F("x", "p"), F("z", "p")                 # Int vs [Int] on A (Int on B: conflicting below exclusive parents too)
    elif kind == "sub":
        same, other = F("o", "p", sel=g.ss([F("x", "r")])), F("o", "p", sel=g.ss([F("y", "r")]))
    else:
        same, other = F("x", "p"), F("x", "p")
    n = rnd.randint(3, 5)
    slots = [dict(same) for _ in range(n)]
    slots[rnd.randrange(n)] = other
    items = []
    frags = {}
    if kind in ("name", "args", "none") and rnd.random() < 0.5:
        # sandwich: between two fields of parent A that may conflict stands a field of the exclusive parent B that is
        # compatible with both - the only pair in conflict is not adjacent in document order
        host = rnd.choice(["i", "u"])
        for k, f in enumerate(slots):
            items.append({"k": "I", "on": "A", "sel": g.ss([f])})
            if k + 1 < n:
                items.append({"k": "I", "on": "B", "sel": g.ss([F(rnd.choice(["x", "y", "w"]), "p")])})
        return g.ss([F(host, sel=g.ss(items))]), frags
    for k, f in enumerate(slots):
        r = rnd.random()
        if r < 0.4 and host == "a":
            items.append(f)
        elif r < 0.8:
            items.append({"k": "I", "on": rnd.choice(["", "A"]) if host == "a" else "A", "sel": g.ss([f])})
        else:
            name = f"T{k}"
            frags[name] = {"on": "A", "sel": g.ss([f])}
            items.append({"k": "S", "name": name})
    root = g.ss([F(host, sel=g.ss(items))])
    return root, frags


def clone(g, ss):
    return g.ss([dict(it, sel=clone(g, it["sel"])) if it["k"] in ("F", "I") else dict(it) for it in ss["items"]])


def twin(rnd, g):
    """The same sub-selection, spelled identically, below two object types on which its fields have different types
    (A.y: String / B.y: Int, A.z: [Int] / B.z: Int, A.m: [Int!] / B.m: [Int]!): whatever is remembered per selection
    set must not be shared between the two places (documents parsed without locations compare such sets equal)."""
    def F(name, alias="", sel=None):
        return {"k": "F", "alias": alias, "name": name, "args": "", "text": "", "sel": sel if sel is not None else g.ss([])}
    leafs = [F(rnd.choice(["x", "y", "z", "w", "m"]), rnd.choice(["", "", "r"])) for _ in range(rnd.randint(1, 2))]
    body = g.ss(leafs)
    for _ in range(rnd.randint(0, 2)):
        body = g.ss([F("o", rnd.choice(["", "p"]), sel=body)])
    host = rnd.choice(["u", "i"])
    left = {"k": "I", "on": "A", "sel": g.ss([F("o", sel=body)])}
    right = {"k": "I", "on": "B", "sel": g.ss([F("o", sel=clone(g, body))])}
    items = [left, right] if rnd.random() < 0.5 else [right, left]
    return g.ss([F(host, sel=g.ss(items))]), {}


def forwardize(rnd, g, frags):
    """pure forwarding fragments: the body of a fragment moves to a new fragment that the old one only spreads (directly
    or inside an inline fragment) - the comparison between fragments must go on into the fragments they spread"""
    for name in list(frags):
        if rnd.random() < 0.45:
            inner = name + "w"
            on = frags[name]["on"]
            frags[inner] = {"on": on, "sel": frags[name]["sel"]}
            sp = {"k": "S", "name": inner}
            frags[name] = {"on": on, "sel": g.ss([sp] if rnd.random() < 0.6 else [{"k": "I", "on": rnd.choice(["", on]), "sel": g.ss([sp])}])}


def render(ss):
    out = []
    for s in ss["items"]:
        if s["k"] == "F":
            out.append((s["alias"] + ": " if s["alias"] else "") + s["name"] + s["text"] + (" " + render(s["sel"]) if s["sel"]["items"] else ""))
        elif s["k"] == "I":
            out.append("..." + (" on " + s["on"] if s["on"] else "") + " " + render(s["sel"]))
        else:
            out.append("..." + s["name"])
    return "{ " + " ".join(out) + " }"


class Watchdog(Exception):
    pass


def _alarm(*_a):
    raise Watchdog()


def _chunk(seeds):
    from graphql import build_schema, parse, validate
    from graphql.validation import OverlappingFieldsCanBeMergedRule
    schema = build_schema(sdl())
    out = []
    signal.signal(signal.SIGALRM, _alarm)
    for sd in seeds:
        rnd = random.Random(sd)
        g = Gen(rnd)
        if sd % 8 == 5:
            root, frags = triple(rnd, g)
        elif sd % 16 == 9:
            root, frags = twin(rnd, g)
        elif sd % 4 == 3:
            root, frags = family(rnd, g)
        else:
            fr = rnd.choice([[], ["F"], ["F", "G"], ["F", "G", "H"]])
            frags = {name: {"on": rnd.choice(["A", "B", "I", "U", "Query"]), "sel": None} for name in fr}
            for name in fr:
                frags[name]["sel"] = g.sel(frags[name]["on"], 2, fr)      # fragments may spread each other and themselves
            root = g.sel("Query", 3, fr)
        if sd % 3 == 1 and frags:
            forwardize(rnd, g, frags)
        text = "query($v: Int, $w: Int) " + render(root) + " " + " ".join(f"fragment {n_} on {f['on']} {render(f['sel'])}" for n_, f in frags.items())
        rec = {"schema": ABS, "doc": {"root": root, "frags": frags or {"_none": {"on": "Query", "sel": {"id": 0, "items": []}}}}, "_text": text, "_seed": sd}
        signal.alarm(20)
        try:
            errs = validate(schema, parse(text), [OverlappingFieldsCanBeMergedRule])
            rec["reported"] = bool(errs)
            # the same document without locations: its nodes compare by value, equal selection sets at different places
            # are equal dictionary keys. The verdict has to be the same; if it is not, the specification judges both.
            errs2 = validate(schema, parse(text, no_location=True), [OverlappingFieldsCanBeMergedRule])
            if bool(errs2) != bool(errs):
                out.append(dict(rec, reported=bool(errs2), _text=text + "  # parsed with no_location"))
        except Watchdog:
            rec["_fail"] = "timeout"
        except RecursionError:
            rec["_fail"] = "RecursionError"
        except Exception as e:  # noqa: BLE001
            rec["_fail"] = type(e).__name__
        finally:
            signal.alarm(0)
        out.append(rec)
    return out


def has_meta_alias(ss):
    for s in ss["items"]:
        if s["k"] == "F":
            if s["name"] == "__typename" and s["alias"]:
                return True
            if has_meta_alias(s["sel"]):
                return True
        elif s["k"] == "I" and has_meta_alias(s["sel"]):
            return True
    return False


def run(tier: str, rd):
    ev = Evidence(PROP, tier)
    vd = Verdicts(PROP)
    n = 4000 if tier == "quick" else 40000
    base = seed() * 1000000 + 900000
    recs = []
    for lst in pmap(_chunk, list(range(base, base + n)), chunk=250):
        recs += lst
    for r in [r for r in recs if "_fail" in r]:
        vd.violation("rule-does-not-return", {"seed": r["_seed"], "query": r["_text"]}, r["_fail"], {"clause": "rule-does-not-return", "why": r["_fail"]})
    recs = [r for r in recs if "reported" in r]
    hits = {}
    for bi in range(0, len(recs), 10000):
        batch = recs[bi:bi + 10000]
        payload = [{k: v for k, v in r.items() if not k.startswith("_")} for r in batch]
        p = common.write_cases(rd, f"merge{bi}.json", payload)
        r = run_tlc(rd, "FieldMergeV", common.v_cfg(constants="CONSTANT MetaFieldsTyped = TRUE"), name=f"FieldMergeV{bi}", env={"CASES": str(p)}, timeout=3400, heap="20g")
        ev.add_tlc(f"V: {len(batch)} documents: real rule vs SpecConflict (FieldMerge.tla)", r)
        for o in r.json_lines():
            rec = batch[o["viol"] - 1]
            hits[o["clause"]] = hits.get(o["clause"], 0) + 1
            meta = any(has_meta_alias(f["sel"]) for f in rec["doc"]["frags"].values() if f["sel"]) or has_meta_alias(rec["doc"]["root"])
            vd.violation(o["clause"], {"seed": rec["_seed"], "query": rec["_text"]}, {"reported": rec["reported"]},
                         {"clause": o["clause"], "aliased_typename": meta})
    ev.traces += len(recs)
    for r in recs:
        ev.case(None, nontrivial=True, key=r["_text"])
    conflicts = sum(1 for r in recs if r["reported"])
    if recs:
        ev.sample({"query": recs[0]["_text"], "reported": recs[0]["reported"]})
        c = next((r for r in recs if r["reported"]), None)
        if c:
            ev.sample({"query": c["_text"], "reported": True})
    ev.extra.update({"documents": len(recs), "reported_conflicts": conflicts, "cyclic_fragment_documents": sum(1 for r in recs if len(r["doc"]["frags"]) >= 2),
                     "clause_hits": hits})
    ev.rule = "seeded documents (0..3 fragments that may spread each other and themselves, colliding aliases, differing arguments); distinct = distinct query text"
    ev.assumptions = ["argument values are compared after normalisation (object field order insensitive, variables by name), as the specification's 'identical arguments'"]
    rc = vd.finish()
    ev.write(vd)
    return rc


if __name__ == "__main__":
    common.main_wrapper(PROP, run)
