"""C06 - stopping early never hangs or leaks: work settles and sources are closed.

X: exhaustive re-execution of small incremental requests with the stop actions enabled at every prefix
   (close the payload stream; trigger the abort signal), early execution off/on, abort signal configured or
   not. After the stop the stop protocol of DESIGN C06 is applied (an abort with nobody awaiting is judged
   after the consumer's next pull; then the environment completes every gate the execution did not cancel)
   and the quiescent state is observed: pending tasks, awaiting callers, per-source lifecycle counters,
   hook calls and the tracked work at hook time.
V: seeded generated requests (raising resolvers, failing sources) under random schedules with a stop injected
   at a random position, and runs consumed to the end.
Every observation is evaluated by TLC against Settled.tla (L1-L4).
M: StreamQueue.tla, an I-spec of stream_item_queue.py (producer / consumer / abort / source failure with
   early-executed pending items), is model checked for delivery order, termination and cleanup.
"""
from __future__ import annotations

import random
import warnings

from . import common, increq, inctraces
from .common import Evidence, Verdicts, run_tlc, pmap, seed

warnings.simplefilter("ignore", RuntimeWarning)
PROP = "C06"


def stop_class(r):
    o = r["obs"]
    sched = r["sched"]
    kinds = [a[2] if a[0] == "settle-stop" else a[0] for a in sched]
    if "close" in kinds:
        return "close-before-first-pull" if "pull" not in kinds[:kinds.index("close")] else "close"
    if "abort" in kinds:
        i = kinds.index("abort")
        if "initial" not in o["caller_at_stop"]:
            return "abort-before-initial-result"
        return "abort-during-pull" if r["pull_outstanding_at_stop"] else "abort-idle"
    return "none"


def observe(run, sched, caller_at_stop=None, pull_outstanding=False):
    o = run.finish()
    o["caller_at_stop"] = caller_at_stop if caller_at_stop is not None else list(o["caller"])
    return {"sched": [list(a) for a in sched], "obs": o, "plain": run.initial_is_plain, "pull_outstanding_at_stop": pull_outstanding}


def encode(r, early, sig):
    o = r["obs"]
    sc = stop_class(r)
    last = o["caller"][-1] if o["caller"] else ""
    if last.startswith("initial-raised:AbortedGraphQLExecutionError") or last.startswith("raised:Boom:stop"):
        outcome = "abort-reason"
    elif last == "initial":
        outcome = "result"
    elif last in ("payload", "end"):
        outcome = last
    else:
        outcome = "other-exception"
    return {"stop": sc, "hang": bool(o["hang"]), "callerWaiting": bool(o["pull_waiting"] or o["initial_waiting"]),
            "callerOutcome": outcome, "pendingTasks": len(o["pending_tasks"]),
            "sources": [{"started": s["started"], "exhausted": s["exhausted"], "aclose": s["aclose"]} for s in o["sources"]],
            "hookCalls": o["hook_calls"], "trackedAtHook": o["hook_tracked"] or 0, "incremental": not r["plain"],
            # external operations (gates) the execution still awaited, uncancelled, at the quiescent point right after the stop
            "uncancelledAtStop": len(o.get("uncancelled_at_stop") or [])}


def explore_stops(req, early, sig, depth):
    """Every sequence of enabled actions up to depth, a stop action enabled at every prefix; runs that did not
    stop within the bound are completed by a deterministic drain (stop class "none")."""
    out = []
    runs = 0

    def rec(prefix):
        nonlocal runs
        run = increq.IncRun(req, early=early, with_signal=sig)
        run.fine_stops = True
        caller_before = None
        outstanding = False
        for a in prefix:
            if a[0] in ("close", "abort", "settle-stop"):
                caller_before = list(run.caller)
                outstanding = run.pull_task is not None and not run.pull_task.done()
            run.do(a)
        runs += 1
        stopped = run.closed or run.aborted
        acts = run.enabled(stops=True)
        if stopped:
            run.after_stop()
            out.append(observe(run, prefix, caller_before, outstanding))
            return
        if not acts or len(prefix) >= depth or run.hang:
            if acts and not run.hang:
                run.drain()
            out.append(observe(run, prefix))
            return
        run.finish()
        for a in acts:
            rec(prefix + [a])
    rec([])
    return out, runs


def _x_job(job):
    name, req, early, sig, depth = job
    res, runs = explore_stops(req, early, sig, depth)
    recs = []
    for r in res:
        e = encode(r, early, sig)
        e["_meta"] = {"request": name, "query": req["query"], "early": early, "signal": sig, "sched": r["sched"],
                      "caller": r["obs"]["caller"], "pending": r["obs"]["pending_tasks"][:6],
                      "hook_pending_all_tasks": len(r["obs"]["hook_pending"] or [])}
        recs.append(e)
    return recs, runs


def _x_chunk(c):
    return [_x_job(j) for j in c]


def _v_job(job):
    seed0, n = job
    recs = []
    for sd in range(seed0, seed0 + n):
        req = increq.gen_request(sd)
        rng = random.Random(sd)
        early = rng.random() < 0.5
        sig = rng.random() < 0.5
        stop_at = rng.choice([None, 0, 1, 2, 3, 5, 8])
        run = increq.IncRun(req, early=early, with_signal=sig)
        sched = []
        caller_before = None
        outstanding = False
        for step in range(300):
            acts = run.enabled(stops=False)
            if stop_at is not None and step >= stop_at and not run.ended:
                stops = [a for a in run.enabled(stops=True) if a[0] in ("close", "abort")]
                if stops:
                    a = rng.choice(stops)
                    caller_before = list(run.caller)
                    outstanding = run.pull_task is not None and not run.pull_task.done()
                    sched.append(a)
                    run.do(a)
                    run.after_stop(rng)
                    break
            if not acts:
                break
            a = rng.choice(acts)
            sched.append(a)
            run.do(a)
        r = observe(run, sched, caller_before, outstanding)
        e = encode(r, early, sig)
        e["_meta"] = {"seed": sd, "query": req["query"], "early": early, "signal": sig, "sched": r["sched"][-8:],
                      "caller": r["obs"]["caller"][-4:], "pending": r["obs"]["pending_tasks"][:6],
                      "hook_pending_all_tasks": len(r["obs"]["hook_pending"] or [])}
        recs.append(e)
    return recs


def _v_chunk(c):
    return [_v_job(j) for j in c]


def run(tier: str, rd):
    ev = Evidence(PROP, tier)
    vd = Verdicts(PROP)
    depth = 5 if tier == "quick" else 7
    jobs = [(name, req, early, sig, depth) for name, req in inctraces.FIXED.items() for early in (False, True) for sig in (False, True)]
    recs, xruns = [], 0
    for lst in pmap(_x_chunk, jobs, chunk=1):
        for r, n in lst:
            recs += r
            xruns += n
    nv = 800 if tier == "quick" else 8000
    vjobs = [(seed() * 100000 + 7 + k * 25, 25) for k in range(nv // 25)]
    for lst in pmap(_v_chunk, vjobs, chunk=1):
        for r in lst:
            recs += r
    payload = [{k: v for k, v in r.items() if k != "_meta"} for r in recs]
    p = common.write_cases(rd, "settled.json", payload)
    r = run_tlc(rd, "SettledV", common.v_cfg(), env={"CASES": str(p)}, timeout=3000, heap="12g")
    ev.add_tlc("V: quiescent-state observations after every stop point vs Settled.tla (L1-L4)", r)
    clause_hits = {}
    n_drift = {}
    for o in r.json_lines():
        rec = recs[o["viol"] - 1]
        m = rec["_meta"]
        if o["clause"].startswith("drift"):
            n_drift[o["clause"]] = n_drift.get(o["clause"], 0) + 1
            continue
        key = f"{rec['stop']}/{o['clause']}"
        clause_hits[key] = clause_hits.get(key, 0) + 1
        sig = {"clause": o["clause"], "stop": rec["stop"], "early": m["early"], "signal": m["signal"], "plain": not rec["incremental"]}
        vd.violation(o["clause"], m, {"stop": rec["stop"], "observation": payload[o["viol"] - 1]}, sig)
    ev.traces += len(recs)
    by_stop = {}
    for rec in recs:
        by_stop[rec["stop"]] = by_stop.get(rec["stop"], 0) + 1
        m = rec["_meta"]
        ev.case(None, nontrivial=rec["stop"] != "none" or rec["incremental"],
                key=common.digest([m.get("query"), m.get("early"), m.get("signal"), m.get("sched"), m.get("seed")]))
    for k, v in n_drift.items():
        vd.note_drift(f"{k}: {v} runs (work the library settles in the background is not cancelled by a stop)", None)
    drift_early = sum(1 for rec in recs if rec["hookCalls"] == 1 and rec["_meta"]["hook_pending_all_tasks"] > 0)
    if drift_early:
        vd.note_drift(f"hook fired while {drift_early} runs still had cancelled-but-unfinished tasks (tracked sets were empty)", None)
    # M: the stream item queue
    for cap, items in ([(1, 2), (2, 2)] if tier == "quick" else [(1, 2), (2, 2), (1, 3), (2, 3), (3, 3)]):
        cfg = (f"SPECIFICATION Spec\nCONSTANT Capacity = {cap}\nCONSTANT MaxItems = {items}\nCONSTANT FixCancelledHead = TRUE\nCONSTANT FixCleanupOnce = TRUE\n"
               "INVARIANT TypeOK\nINVARIANT OrderOK\nINVARIANT CleanupOnce\nINVARIANT NoLostFailure\nPROPERTY Terminates\nCHECK_DEADLOCK FALSE\n")
        r = run_tlc(rd, "StreamQueue", cfg, name=f"SQ_{cap}_{items}", timeout=1800, allow_violation=True)
        ev.add_tlc(f"M: StreamQueue.tla capacity={cap} items<={items} (order, cleanup once, no lost failure, termination)", r)
        if r.invariant_violations or r.rc == 13:
            vd.violation("model-StreamQueue", {"capacity": cap, "items": items}, r.tail(50), {"clause": "model-StreamQueue"})
    if recs:
        ev.sample({"observation": payload[0], "meta": recs[0]["_meta"]})
        st = next((k for k, rec in enumerate(recs) if rec["stop"] not in ("none",)), 0)
        ev.sample({"observation": payload[st], "meta": recs[st]["_meta"]})
    ev.extra.update({"x_re_executions": xruns, "observations": len(recs), "by_stop_class": by_stop, "clause_hits": clause_hits})
    ev.rule = ("X: every action sequence up to the depth bound with close/abort enabled at every prefix, for 8 fixed requests x early execution x "
               "abort signal configured; V: seeded generated requests with a stop injected at a random step; non-trivial = stopped early or incremental")
    ev.assumptions = ["environment fairness: after the stop every gate the execution did not cancel is eventually completed",
                      "an abort while nobody awaits is judged after the consumer's next pull",
                      "'tracked work' at hook time = the executor's background and incremental future sets (cancelled-but-unfinished tasks are drift)"]
    ev.level = "fault_enumeration"
    rc = vd.finish()
    ev.write(vd)
    return rc


if __name__ == "__main__":
    common.main_wrapper(PROP, run)
