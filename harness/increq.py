"""End-to-end incremental requests under harness-controlled schedules (C04, C05, C06).

A *request* = (query text with @defer/@stream, label->enclosing-label map, data seed, options).
All data comes from one generic field resolver whose outcome at a response path is a deterministic
function of (data seed, path, field type), so the incremental run, the reference run (base Executor,
directives ignored) and every re-execution see the same backing data.  All asynchrony comes from
gates (futures owned by the harness): a schedule is a sequence of
   ("settle", gate) | ("pull",) | ("close",) | ("abort",)
applied one at a time, each followed by DetLoop.quiesce().
"""
from __future__ import annotations

import asyncio
import hashlib
import random

from .detloop import DetLoop, NoQuiescence
from . import wire

SDL = """
directive @defer(if: Boolean! = true, label: String) on FRAGMENT_SPREAD | INLINE_FRAGMENT
directive @stream(if: Boolean! = true, label: String, initialCount: Int! = 0) on FIELD
directive @experimental_disableErrorPropagation on QUERY | MUTATION | SUBSCRIPTION
type Query { a: String  b: Int  nn: Int!  slow: String  o: O  p: O  onn: O!  l: [Int]  m: [Int!]  ol: [O]  oln: [O!] }
type O { x: Int  y: Int  nx: Int!  o: O  l: [Int]  ol: [O] }
"""
_schema = None


def schema():
    global _schema
    if _schema is None:
        from graphql import build_schema
        _schema = build_schema(SDL)
    return _schema


def h(seed, *parts) -> int:
    m = hashlib.sha1(("%s|%s" % (seed, "|".join(map(str, parts)))).encode()).digest()
    return int.from_bytes(m[:6], "big")


# ---------------------------------------------------------------------------------------------
# query generator

SCALARS_Q = ["a", "b", "nn", "slow"]
OBJS_Q = ["o", "p", "onn"]
LISTS_Q = ["l", "m"]
OLISTS_Q = ["ol", "oln"]
SCALARS_O = ["x", "y", "nx"]
OBJS_O = ["o"]
LISTS_O = ["l"]
OLISTS_O = ["ol"]


class QGen:
    def __init__(self, rng, max_defer=3, max_stream=2, p_defer=0.35, p_stream=0.5):
        self.rng = rng
        self.labels = 0
        self.parents = {}
        self.n_defer = 0
        self.n_stream = 0
        self.max_defer, self.max_stream = max_defer, max_stream
        self.p_defer, self.p_stream = p_defer, p_stream
        self.frags = []
        self.uses_var = False
        self.reusable = {"Query": [], "O": []}     # named fragments without a @defer inside: (name, streamed object-list fields)
        self.last_stream = None

    def label(self, prefix):
        self.labels += 1
        return f"{prefix}{self.labels}"

    def sel(self, on_query, depth, encl, in_list=False):
        rng = self.rng
        sc, ob, li, ol = (SCALARS_Q, OBJS_Q, LISTS_Q, OLISTS_Q) if on_query else (SCALARS_O, OBJS_O, LISTS_O, OLISTS_O)
        out = []
        n = rng.randrange(1, 4)
        for _ in range(n):
            r = rng.random()
            if r < 0.45 or depth >= 3:
                f = rng.choice(sc)
                out.append(f if rng.random() < 0.75 else f"z{f}: {f}")       # an alias never collides with another field's key
            elif r < 0.6:
                f = rng.choice(ob)
                out.append(f"{f} {{ {self.sel(False, depth + 1, encl)} }}")
            elif r < 0.7:
                f = rng.choice(li)
                out.append(f + self.stream_dir())
            elif r < 0.78:
                f = rng.choice(ol)
                d = self.stream_dir()
                # a defer inside a streamed item has no enclosing fragment
                out.append(f"{f}{d} {{ {self.sel(False, depth + 1, '' if d else encl, True)} }}")
                if d:
                    self.last_stream = (f, d)
                    if "label" not in d and rng.random() < 0.5:
                        # the same field again with the identical directive (what validation demands) and another sub-selection
                        out.append(f"{f}{d} {{ {rng.choice(SCALARS_O)} }}")
            elif r < 0.86 and self.reusable["Query" if on_query else "O"]:
                # a named fragment spread a second time, possibly merged with another selection of its streamed field
                name, streams = rng.choice(self.reusable["Query" if on_query else "O"])
                out.append(f"...{name}")
                for f, d in streams:
                    if "label" not in d and rng.random() < 0.7:
                        g2 = rng.choice(SCALARS_O)
                        out.append(f"{f}{d} {{ {rng.choice(SCALARS_O)} z{g2}: {g2} }}")
            else:
                out.append(self.fragment(on_query, depth, encl))
        return " ".join(out)

    def stream_dir(self):
        rng = self.rng
        if self.n_stream >= self.max_stream or rng.random() > self.p_stream:
            return ""
        self.n_stream += 1
        args = []
        if rng.random() < 0.65:        # labels are optional; two merged selections of a streamed field can only be unlabelled
            lab = self.label("S")
            self.parents[lab] = ""
            args.append(f'label: "{lab}"')
        ic = rng.choice([0, 0, 1, 2])
        if ic or rng.random() < 0.3 or not args:
            args.append(f"initialCount: {ic}")
        if rng.random() < 0.1:
            args.append("if: false")
        return " @stream(" + ", ".join(args) + ")"

    def fragment(self, on_query, depth, encl):
        rng = self.rng
        tname = "Query" if on_query else "O"
        deferred = self.n_defer < self.max_defer and rng.random() < self.p_defer / 0.22 * 0.22 + 0.4
        d = ""
        inner = encl
        if deferred:
            self.n_defer += 1
            lab = self.label("D")
            args = [f'label: "{lab}"']
            r = rng.random()
            active = True
            if r < 0.1:
                args.append("if: false")
                active = False
            elif r < 0.2:
                args.append("if: $t")
                self.uses_var = True
            elif r < 0.25:
                args.append("if: $f")
                self.uses_var = True
                active = False
            d = " @defer(" + ", ".join(args) + ")"
            if active:
                self.parents[lab] = encl
                inner = lab
        n_defer0 = self.n_defer
        body = self.sel(on_query, depth + 1, inner)
        if rng.random() < 0.4:
            name = f"F{len(self.frags)}"
            self.frags.append(f"fragment {name} on {tname} {{ {body} }}")
            if self.n_defer == n_defer0 and "..." not in body:
                # top-level streamed object lists of the body (text form "f @stream(..) {")
                import re
                streams = [(m.group(1), m.group(2)) for m in re.finditer(r"(?:^| )(ol|oln)( @stream\([^)]*\)) \{", body)]
                self.reusable[tname].append((name, streams))
            return f"...{name}{d}"
        cond = rng.choice(["", f" on {tname}"])
        return f"...{cond}{d} {{ {body} }}"


def gen_request(seed: int, **kw):
    """a request that passes validation (the statement quantifies over valid requests): the first valid one of the
    seed's candidates"""
    from graphql import parse, validate
    for k in range(20):
        req = gen_candidate(seed if k == 0 else seed * 1000003 + k, **kw)
        if not validate(schema(), parse(req["query"])):
            req["data_seed"] = seed
            return req
    raise RuntimeError(f"no valid request for seed {seed}")


def gen_candidate(seed: int, **kw):
    rng = random.Random(seed)
    g = QGen(rng, **kw)
    body = g.sel(True, 0, "")
    # make sure there is some incremental directive
    if g.n_defer == 0 and g.n_stream == 0:
        lab = g.label("D")
        g.parents[lab] = ""
        body += f' ... @defer(label: "{lab}") {{ {g.sel(True, 1, lab)} }}'
    noprop = rng.random() < 0.2
    alltext = body + " ".join(g.frags)
    vdefs = [d for v, d in (("$t", "$t: Boolean = true"), ("$f", "$f: Boolean = false")) if v in alltext]
    head = "query Q(" + ", ".join(vdefs) + ")" if vdefs else "query Q"
    if noprop:
        head += " @experimental_disableErrorPropagation"
    text = f"{head} {{ {body} }} " + " ".join(g.frags)
    return {"query": text, "parents": g.parents, "data_seed": seed, "noprop": noprop,
            "p_null": rng.choice([0.0, 0.1, 0.2]), "p_raise": rng.choice([0.0, 0.0, 0.1, 0.25]),
            "p_gate": rng.choice([0.3, 0.6, 1.0]), "p_aiter": rng.choice([0.0, 0.5, 1.0])}


# ---------------------------------------------------------------------------------------------
# data plan + resolvers

class Boom(Exception):
    pass


class Source:
    """Async iterator source with one gate per __anext__ (from index `free` on) and lifecycle counters."""

    def __init__(self, run, key, items, fail_at, gated):
        self.run, self.key, self.items, self.fail_at, self.gated = run, key, items, fail_at, gated
        self.i = 0
        self.started = False
        self.exhausted = False
        self.raised = False
        self.aclose_calls = 0
        self.anext_calls = 0
        run.sources.append(self)

    def __aiter__(self):
        return self

    async def __anext__(self):
        self.started = True
        self.anext_calls += 1
        if self.gated:
            await self.run.gate(f"{self.key}#{self.i}")
            opened = getattr(self.run, "gate_opened", None)
            if opened is not None:
                opened(f"{self.key}#{self.i}")
        if self.fail_at is not None and self.i == self.fail_at:
            self.raised = True
            raise Boom(f"source {self.key} failed")
        if self.i >= len(self.items):
            self.exhausted = True
            raise StopAsyncIteration
        self.i += 1
        return self.items[self.i - 1]

    async def aclose(self):
        self.aclose_calls += 1


class Plan:
    def __init__(self, req):
        self.req = req
        self.seed = req["data_seed"]

    def outcome(self, key, kind):
        """kind: scalar | object | list | olist ; -> (what, mode)"""
        s, r = self.seed, self.req
        forced = r.get("force", {}).get(key)
        if forced is not None:
            return forced[0], forced[1]
        u = (h(s, key, "o") % 1000) / 1000.0
        mode = "gate" if (h(s, key, "m") % 1000) / 1000.0 < r["p_gate"] else "sync"
        if u < r["p_raise"]:
            return "raise", mode
        if u < r["p_raise"] + r["p_null"]:
            return "null", mode
        return "value", mode

    def list_shape(self, key):
        s, r = self.seed, self.req
        forced = r.get("lists", {}).get(key)
        if forced is not None:
            return forced
        n = h(s, key, "n") % 4
        aiter = (h(s, key, "a") % 1000) / 1000.0 < r["p_aiter"]
        fail_at = None
        if (h(s, key, "f") % 1000) / 1000.0 < r["p_raise"]:
            fail_at = h(s, key, "fa") % (n + 1)
        return n, aiter, fail_at


def make_resolver(run, sync_only=False):
    from graphql.type import get_named_type, is_list_type, is_non_null_type, is_object_type
    plan = run.plan

    def kind_of(t):
        if is_non_null_type(t):
            t = t.of_type
        if is_list_type(t):
            return "olist" if is_object_type(get_named_type(t)) else "list"
        return "object" if is_object_type(t) else "scalar"

    def item_value(key, i, okind, item_nonnull):
        u = (h(plan.seed, key, i, "iv") % 1000) / 1000.0
        if u < plan.req["p_null"]:
            return None
        return {"_": 1} if okind == "olist" else h(plan.seed, key, i) % 100

    def resolver(source, info, **_args):
        path = info.path.as_list()
        key = "/".join(str(p) for p in path)
        kind = kind_of(info.return_type)
        what, mode = plan.outcome(key, kind)
        if sync_only:
            mode = "sync"
        run.calls.append(key)

        def produce():
            if what == "raise":
                raise Boom(f"resolver {key} failed")
            if what == "null":
                return None
            if kind == "scalar":
                nt = get_named_type(info.return_type).name
                v = h(plan.seed, key, "v") % 100
                return v if nt == "Int" else f"s{v}"
            if kind == "object":
                return {"_": 1}
            n, aiter, fail_at = plan.list_shape(key)
            if getattr(run, "no_source_fail", False):
                fail_at = None
            rt = info.return_type.of_type if is_non_null_type(info.return_type) else info.return_type
            items = [item_value(key, i, kind, is_non_null_type(rt.of_type)) for i in range(n)]
            if aiter and not sync_only:
                return Source(run, key, items, fail_at, gated=True)
            if aiter and sync_only:
                return Source(run, key, items, fail_at, gated=False)
            return items

        if mode == "sync":
            return produce()

        async def later():
            await run.gate(key)
            opened = getattr(run, "gate_opened", None)
            if opened is not None:
                opened(key)
            return produce()
        return later()
    return resolver


# ---------------------------------------------------------------------------------------------
# the run

class IncRun:
    def __init__(self, req, early=False, with_signal=False, hooks=True):
        from graphql import parse
        from graphql.execution import experimental_execute_incrementally, ExecutionHooks
        from graphql.pyutils import AbortController
        self.req = req
        self.plan = Plan(req)
        self.loop = DetLoop()
        asyncio.set_event_loop(None)
        self.gates = {}
        self.gate_counts = {}
        self.sources = []
        self.calls = []
        self.payloads = []          # formatted payloads in delivery order
        self.caller = []            # outcomes delivered to awaiting callers
        self.hook_calls = 0
        self.hook_pending = None
        self.hook_tracked = 0
        self.pull_task = None
        self.close_task = None
        self.armed = None
        self.armed_fired = False
        self.fine_stops = False
        self.closed = self.ended = self.aborted = False
        self.completed = False
        self.hang = False
        self.res = None
        self.ctl = AbortController() if with_signal else None
        self.with_signal = with_signal
        self.initial_is_plain = False
        doc = parse(req["query"])

        def hook(info):
            self.hook_calls += 1
            self.hook_pending = [self._tname(t) for t in self.loop.pending_tasks() if t not in self._mine()]
            ex = getattr(info, "executor", None)
            self.hook_tracked = sum(1 for f in list(getattr(ex, "background_futures", ()) or ()) + list(getattr(ex, "pending_incremental_futures", ()) or ())
                                    if not f.done() and not (hasattr(f, "cancelling") and f.cancelling()))

        kw = {}
        if with_signal:
            kw["abort_signal"] = self.ctl.signal
        if hooks:
            kw["hooks"] = ExecutionHooks(hook)
        asyncio.events._set_running_loop(self.loop)
        try:
            r = experimental_execute_incrementally(schema(), doc, None, field_resolver=make_resolver(self),
                                                   enable_early_execution=early, **kw)
        finally:
            asyncio.events._set_running_loop(None)
        self.result_task = self.loop.create_task(self._await(r))
        self._quiesce()

    # -- helpers
    @staticmethod
    def _tname(t):
        c = t.get_coro()
        return getattr(c, "__qualname__", type(c).__name__)

    def _mine(self):
        return {t for t in (self.result_task, self.pull_task, self.close_task) if t is not None}

    def _quiesce(self):
        try:
            self.loop.quiesce(20000)
        except NoQuiescence:
            self.hang = True

    async def _await(self, r):
        try:
            if asyncio.iscoroutine(r) or asyncio.isfuture(r):
                r = await r
            self.res = r
            if hasattr(r, "initial_result"):
                self.payloads.append(r.initial_result.formatted)
            else:
                self.initial_is_plain = True
                self.payloads.append(r.formatted)
                self.ended = True
            self.caller.append("initial")
        except Exception as e:  # noqa: BLE001
            self.caller.append("initial-raised:" + type(e).__name__)
            self.ended = True

    def gate(self, name):
        n = self.gate_counts.get(name, 0)
        self.gate_counts[name] = n + 1
        if n:
            name = f"{name}~{n}"
        f = self.gates[name] = self.loop.create_future()
        return f

    # -- actions
    def enabled(self, stops=False):
        acts = [("settle", g) for g, f in self.gates.items() if not f.done()]
        idle = self.pull_task is None or self.pull_task.done()
        incremental = self.res is not None and hasattr(self.res, "subsequent_results")
        if incremental and not self.closed and not self.ended and idle:
            acts.append(("pull",))
            if stops and not self.completed:
                acts.append(("close",))
        if stops and self.with_signal and not self.aborted and not self.closed and not self.ended and not self.completed:
            acts.append(("abort",))
        if stops and getattr(self, "fine_stops", False):
            kinds = [a[0] for a in acts]
            for a in list(acts):
                if a[0] == "settle":
                    for d in (0, 1):
                        if "close" in kinds:
                            acts.append(("settle-stop", a[1], "close", d))
                        if "abort" in kinds:
                            acts.append(("settle-stop", a[1], "abort", d))
        return acts

    async def _pull(self):
        try:
            p = await anext(self.res.subsequent_results)
            self.payloads.append(p.formatted)
            self.caller.append("payload")
            if not p.has_next:
                self.completed = True      # the last payload has been delivered
        except StopAsyncIteration:
            self.ended = True
            self.caller.append("end")
        except Exception as e:  # noqa: BLE001
            self.ended = True
            self.caller.append("raised:" + type(e).__name__ + ":" + str(e)[:40])

    async def _close(self):
        await self.res.subsequent_results.aclose()

    # -- a stop that the consumer performs in reaction to something a resolver did: it is woken in the very loop step in
    #    which the resolver (or source) behind the armed gate resumes, i.e. BEFORE the callbacks of whatever completes as a
    #    consequence have run (delay = further turns of the loop the consumer lets pass first)
    def gate_opened(self, name):
        if self.armed is not None and self.armed[0].split("~")[0] == name.split("~")[0]:
            _g, kind, delay = self.armed
            self.armed = None
            self.armed_fired = True
            self.close_task = self.loop.create_task(self._armed_stop(kind, delay))

    async def _armed_stop(self, kind, delay):
        for _ in range(delay):
            await asyncio.sleep(0)
        if kind == "close":
            if self.res is not None and hasattr(self.res, "subsequent_results") and not self.ended:
                self.closed = True
                await self.res.subsequent_results.aclose()
        elif not self.ended and not self.completed:
            self.aborted = True
            self.ctl.abort(Boom("stop"))

    def do(self, act):
        k = act[0]
        if k == "settle":
            f = self.gates.get(act[1])
            if f is None or f.done():
                return False
            f.set_result(None)
        elif k == "pull":
            self.pull_task = self.loop.create_task(self._pull())
        elif k == "close":
            self.closed = True
            self.close_task = self.loop.create_task(self._close())
        elif k == "abort":
            self.aborted = True
            self.ctl.abort(Boom("stop"))
        elif k == "settle-stop":
            f = self.gates.get(act[1])
            if f is None or f.done():
                return False
            self.armed = (act[1], act[2], act[3])
            f.set_result(None)
        self._quiesce()
        self.armed = None
        return True

    def drain(self, rng=None, limit=500):
        """Settle every pending gate (seeded order) and pull to the end."""
        n = 0
        while n < limit:
            acts = self.enabled()
            if not acts:
                break
            a = acts[0] if rng is None else rng.choice(acts)
            self.do(a)
            n += 1
        return n < limit

    def after_stop(self, rng=None):
        """Stop protocol (DESIGN C06): an abort with nobody awaiting is judged after the consumer's next
        interaction; then the environment completes every gate the code has not cancelled."""
        incremental = self.res is not None and hasattr(self.res, "subsequent_results")
        idle = self.pull_task is None or self.pull_task.done()
        self.snapshot_at_stop = {"pending_gates": sorted(g for g, f in self.gates.items() if not f.done())}
        if self.aborted and incremental and not self.closed and not self.ended and idle:
            self.do(("pull",))
        for _ in range(200):
            pend = [g for g, f in self.gates.items() if not f.done()]
            if not pend:
                break
            g = pend[0] if rng is None else rng.choice(pend)
            self.do(("settle", g))

    def finish(self):
        pend = [t for t in self.loop.pending_tasks()]
        o = {
            "pending_tasks": sorted(self._tname(t) for t in pend if t not in self._mine()),
            "open_gates": sorted(g for g, f in self.gates.items() if not f.done() and not f.cancelled()),
            "cancelled_gates": sorted(g for g, f in self.gates.items() if f.cancelled()),
            "hook_calls": self.hook_calls, "hook_pending": self.hook_pending, "hook_tracked": self.hook_tracked,
            "sources": [{"key": s.key, "started": s.started, "exhausted": s.exhausted, "raised": s.raised,
                         "aclose": s.aclose_calls, "anext": s.anext_calls} for s in self.sources],
            "caller": list(self.caller), "closed": self.closed, "ended": self.ended, "aborted": self.aborted,
            "pull_waiting": self.pull_task is not None and not self.pull_task.done(),
            "initial_waiting": not self.result_task.done(), "hang": self.hang,
            "loop_exceptions": [str(c.get("message"))[:80] for c in self.loop.exception_log][:5],
            "uncancelled_at_stop": (getattr(self, "snapshot_at_stop", None) or {}).get("pending_gates", []),
        }
        # tidy up a run that was abandoned mid-way (after the observations were taken)
        gen = getattr(self.res, "subsequent_results", None)
        if gen is not None and not self.ended and not self.closed:
            for t in pend:
                t.cancel()
            try:
                self.loop.quiesce(20000)
                self.loop.create_task(self._swallow(gen.aclose()))
                self.loop.quiesce(20000)
            except NoQuiescence:
                pass
        for t in self.loop.pending_tasks():
            t.cancel()
        for f in self.gates.values():
            if not f.done():
                f.cancel()
        try:
            self.loop.quiesce(20000)
        except NoQuiescence:
            pass
        self.loop.close()
        return o

    @staticmethod
    async def _swallow(aw):
        try:
            await aw
        except BaseException:  # noqa: BLE001
            pass


def reference(req, noprop: bool, no_source_fail: bool = False):
    """The same operation executed by the base Executor (ignores @defer/@stream), synchronously resolved data.
    noprop: force error propagation off (the non-propagating reference)."""
    from graphql import parse
    from graphql.execution import experimental_execute_incrementally, Executor

    class R:
        pass
    run = R()
    run.plan = Plan(req)
    run.sources = []
    run.calls = []
    run.no_source_fail = no_source_fail
    loop = DetLoop()
    run.gate = None
    text = req["query"]
    if noprop and "@experimental_disableErrorPropagation" not in text:
        text = text.replace("query Q", "query Q", 1)
        i = text.index("{")
        text = text[:i] + "@experimental_disableErrorPropagation " + text[i:]
    doc = parse(text)
    asyncio.events._set_running_loop(loop)
    try:
        r = experimental_execute_incrementally(schema(), doc, None, field_resolver=make_resolver(run, sync_only=True),
                                               executor_class=Executor)
    finally:
        asyncio.events._set_running_loop(None)
    if asyncio.iscoroutine(r) or asyncio.isfuture(r):
        r = loop.run(r)
    loop.close()
    return r


# ---------------------------------------------------------------------------------------------
# encoding of payload traces for Delivery.tla

def enc_payload(p, initial=False):
    def errs(lst):
        return [wire.enc_path(e.get("path") or []) for e in (lst or [])]
    inc = []
    for x in p.get("incremental", []) or []:
        if "items" in x:
            inc.append({"k": "s", "id": x["id"], "sub": [], "data": {"t": "null"}, "items": [wire.enc_value(i) for i in (x["items"] or [])],
                        "errs": errs(x.get("errors"))})
        else:
            inc.append({"k": "d", "id": x["id"], "sub": wire.enc_path(x.get("subPath") or []), "data": wire.enc_value(x.get("data")),
                        "items": [], "errs": errs(x.get("errors"))})
    return {"data": wire.enc_value(p.get("data")) if initial else {"t": "null"},
            "pending": [{"id": x["id"], "path": wire.enc_path(x["path"]), "label": x.get("label") or ""} for x in p.get("pending", []) or []],
            "incremental": inc,
            "completed": [{"id": x["id"], "err": "errors" in x, "errs": errs(x.get("errors"))} for x in p.get("completed", []) or []],
            "errs": errs(p.get("errors")) if initial else [],
            "hasNext": p.get("hasNext", False)}


def trace_record(req, payloads, complete, ref_np, refclean, ref_nf=None):
    return {"initial": enc_payload(payloads[0], True), "subsequent": [enc_payload(p) for p in payloads[1:]],
            "parents": req["parents"] or {"_": ""}, "ref": wire.enc_value(ref_np.data), "refclean": refclean, "complete": complete,
            "refnf": wire.enc_value(ref_nf.data) if ref_nf is not None else {"t": "missing"}}
