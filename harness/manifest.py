"""Generates /verif/MANIFEST.json from the table below (python -m harness.manifest)."""
import json
from pathlib import Path

VERIF = Path(__file__).resolve().parent.parent

HOOK_COMMITS: list[str] = []

CLAIMED = {
    "C18": dict(
        category="model_checking",
        text=("Introspect.tla specifies IntroGraph(S) - what the introspection types must present for an abstract schema (kinds, fields with arguments, "
              "interfaces, possibleTypes, enum values, input fields, parsed default values, isOneOf, specifiedByURL, isRepeatable, roots, description) - and "
              "Project(full, opts) - the full-options result minus exactly the attributes and deprecated input values each switched-off option omits. For "
              "seeded schemas (SDL and programmatic routes) the standard introspection query is validated and executed under all 2^7 option combinations; "
              "TLC checks every result against Project of the full result, the user-defined part of the full result against IntroGraph(S), and SelfContained(full): "
              "every type the result refers to is one it lists (a family of small schemas refers to each built-in scalar from exactly one place, for every kind "
              "of place, incl. interfaces nothing implements). Python checks "
              "__type(name:) against the type list and that build_client_schema(full) prints identically, shows no changes and introspects to the same result."),
        design_ref="DESIGN.md 5/C18",
        note="Built-in scalars, introspection types and specified directives are not compared with IntroGraph; defaultValue strings are parsed back before comparison; ad-hoc introspection selections are not generated yet.",
        technique="TLC evaluation of recorded introspection results against Introspect.tla (IntroGraph, Project over 128 option combinations)",
    ),
    "C19": dict(
        category="model_checking",
        text=("SchemaAlgebra.tla specifies the effect of an extension (ApplyExt: entries appended in document order, nothing else changes) and the "
              "order-insensitive reading of a schema (Unordered). For seeded (base schema, extension document) pairs - extensions adding fields, interfaces, "
              "union members, enum values, input fields, types, directives and operation types with shuffled definition order - TLC checks that the projection "
              "of extend_schema(build(A), B) equals that of build(A+B), that the original object's projection is unchanged, and (as drift) that both equal "
              "ApplyExt(A, B); that sorting changes order only and is idempotent. Python checks equal prints, the identity law for empty extensions, "
              "find_schema_changes(s, s) = [] and, for single-edit mutants, that every reported change names an element whose projection differs."),
        design_ref="DESIGN.md 5/C19",
        note="Sortedness itself (natural order) is not decided by TLC (no string order in TLC); witness rule for reported changes is evaluated in the harness.",
        technique="TLC evaluation of recorded extend/sort results against SchemaAlgebra.tla (ApplyExt, Unordered) + metamorphic laws on the real utilities",
    ),
    "C20": dict(
        category="model_checking",
        text=("SchemaValid.tla transcribes the specification's type-system rules as one named predicate per rule (root types, directive definitions, reserved "
              "names, non-empty types, input/output positions, interface implementation with IsSubType covariance / argument invariance / extra required "
              "arguments / deprecation / transitive interfaces, union members, default values through input coercion, OneOf restrictions, unbreakable input "
              "cycles, default-value cycles). Valid generated schemas and every applicable single mutation (12 operators, 21 mutation classes) plus double mutations are built by "
              "three routes (SDL with and without pre-validation, programmatic); TLC decides for each whether the abstract schema is valid and the real "
              "validate_schema must return an empty list exactly then, never raise, and a request against an invalid schema must return those errors only."),
        design_ref="DESIGN.md 5/C20",
        note="Only emptiness of the error list is compared with SchemaValid (not the per-rule mapping); schemas whose construction raises are outside the statement; default-value cycles (DefaultCycle, 7 shapes incl. through OneOf values and lists) are part of the mutations.",
        technique="TLC evaluation of SchemaValid.tla on generated and mutated abstract schemas vs the real validate_schema",
    ),
    "C01": dict(
        category="model_checking",
        text=("Bounded-exhaustive spec->code: TLC enumerates every string '\"'+w over a 12-symbol escape alphabet (|w|<=4 quick, <=6 thorough) and all "
              "strings over three 16-symbol lexical alphabets with the specification's verdict from Lexical.tla; the real lexer and graphql_sync must "
              "raise nothing but GraphQLSyntaxError on each. Code->spec: truncation/substitution sweeps through the five parse entry points (nesting 1..100) "
              "and a seeded pipeline sweep (sources x variables x operation names x resolvers raising/returning 19 exception classes, sync and async) whose "
              "formatted results TLC evaluates against Pipeline.tla's WellFormedResult (response-format section 7.1)."
              " The variables dimension includes generated adversarial values (huge ints, keys whose case mapping changes their length, non-string keys, deep / self-referential values, the numeric tower); resolvers and type resolution (resolve_type / is_type_of, sync or awaitable) raise or return exceptions with unrelated attributes of the names located_error looks at."),
        design_ref="DESIGN.md 5/C01",
        note="Trusted: Lexical.tla/Pipeline.tla transcriptions; 'any class' = Exception subclasses; RecursionError beyond nesting 100 excluded.",
        technique="TLC enumeration of LexEnum.tla (spec->code) + TLC evaluation of recorded results against Pipeline.tla (code->spec)",
    ),
    "C02": dict(
        category="model_checking",
        text=("Code->spec with an independent oracle: Execute.tla transcribes the specification's execution algorithm (CoerceVariableValues, CollectFields with "
              "@skip/@include, inline fragments and spreads with a visited set, ExecuteSelectionSet with ordered keys, CoerceArgumentValues incl. the "
              "variable/default/missing rules, CompleteValue with non-null/list/leaf/abstract/object cases, error propagation). Seeded abstract cases "
              "(4 000 quick / 40 000 thorough) are rendered to real schema/document/data objects and executed with execute_sync three times on shared objects; "
              "TLC evaluates Execute on every recorded case and compares data incl. key order, the set and number of error paths and the argument map of every "
              "resolver call; repeated and interleaved executions must be identical."
              " The domain includes list variables, documents parsed without locations (cross-request caches keyed by nodes) input object literals with variables inside (CoerceObj) and variables of input object type given as maps with explicit nulls, missing fields, nested maps and unknown keys (VarCoerceObj)."),
        design_ref="DESIGN.md 5/C02",
        note="Trusted: Execute.tla as the reading of spec section 6; gqlmini renderers; documents are filtered by the real validate(); custom scalars/middleware out of scope.",
        technique="TLC evaluation of recorded real executions against the transcribed specification algorithm Execute.tla",
    ),
    "C03": dict(
        category="model_checking",
        text=("Schedule exploration on the real executor with a TLA+ oracle: every resolver result, abstract type resolution, list item and async-iterator step "
              "is independently sync or bound to a harness gate; per request every completion order of the gates the code really has pending is executed by "
              "re-execution on a deterministic loop (random orders beyond the run budget). TLC (AsyncV.tla) checks each async response against Execute.tla "
              "(same data, same nulled positions), against the fully synchronous execution, for well-formedness (errors end at/below a null, data null only "
              "with a root error) and, for mutations, that the root-field index never decreases in the interleaved call/completion log."
              " I-spec: AsyncExec.tla models the executor's scheduling (position tree without the synchronous short-circuits, Settle(g) with the rules of execute_fields / gather_with_cancel / settle_in_background / list draining / serial root fields); TLC explores every completion order of a batch of requests (Confluence with Execute.tla, Progress, Seriality, Orphans) and replays every order executed on the real executor, comparing the set of pending gates after every step (MODEL-DRIFT). Seriality also covers resolver coroutines that were cancelled but have not finished unwinding."),
        design_ref="DESIGN.md 5/C03",
        note="One gate completes per quiescent point; error entries below an already nulled position are not compared (only nulled positions are); the id()-keyed memo defect F2 was found through C04 and is fixed.",
        technique="exhaustive re-execution of completion orders on a deterministic event loop + TLC evaluation against Execute.tla/AsyncV.tla",
    ),
    "C04": dict(
        category="model_checking",
        text=("Trace validation code->spec: payload sequences of real executions (8 fixed request shapes under exhaustive re-execution of every settle/pull "
              "order, seeded generated requests with nested/labelled/if:false/overlapping @defer and @stream under random schedules, early execution off/on) are "
              "applied by TLC exactly as the incremental-delivery format prescribes (Delivery.tla) and compared with the base Executor's response: equality when "
              "the reference is error-free or propagation is disabled, the Withheld relation (subtrees nulled only under a reported error, fields/tails missing "
              "only under an id completed with errors) otherwise. I-spec: Plan.tla transcribes collect_fields with defer usages (visited-fragment rule), "
              "get_filtered_defer_usage_set, build_execution_plan, the delivery-group maps and the execution groups of nested sub-executors; TLC builds every "
              "document of its domain with <= 5 (thorough 6) nodes and checks Partition (every field executed exactly once), Antichain (= the WellFormedWork "
              "assumption of WorkQueue.tla), Closed and Nested on each; the documents with <= 4 (5) nodes and seeded larger ones are executed with a recording "
              "subclass of IncrementalExecutor and TLC compares the real delivery groups, execution groups and placement with PlanOf (MODEL-DRIFT) and evaluates "
              "the strict reading of 'withheld' that needs the plan: a leaf lost without a null above it belongs only to fragments reported as failed (LossExplained)."),
        design_ref="DESIGN.md 5/C04, 10.8",
        note="Trusted: Delivery.tla's Apply/Withheld; the base Executor as reference (itself checked by C02); harness resolvers deterministic per response path.",
        technique="TLC trace validation of recorded payload sequences against Delivery.tla (AssemblyClause) + TLC model checking of Plan.tla (MCPlan) with its documents replayed into, and recorded plans validated from, the real IncrementalExecutor (PlanV)",
    ),
    "C05": dict(
        category="model_checking",
        text=("Model checking of WorkQueue.tla (method-by-method I-spec of work_queue.py with the publisher's id bookkeeping) over every well-formed work graph in "
              "scope incl. nested work, all interleavings of task/stream/pull events: protocol and structural invariants, proper termination. Spec->code: one "
              "behaviour per terminal state plus simulated walks are replayed into the real WorkQueue on a deterministic loop (batches compared with the model) and "
              "fed through the real IncrementalPublisher. Code->spec: those payload sequences and end-to-end payload traces (exhaustive re-execution + seeded "
              "schedules) are validated by TLC against the payload-level protocol spec Delivery.tla (D1-D7)."),
        design_ref="DESIGN.md 5/C05",
        note="Assumes WellFormedWork (a task's groups form an antichain); one consumer action per quiescent point; verdicts come only from Delivery.tla clauses and model invariants, replay mismatches are MODEL-DRIFT.",
        technique="TLC model checking of WorkQueue.tla + behaviour replay into the real WorkQueue/Publisher + TLC trace validation against Delivery.tla",
    ),
    "C06": dict(
        category="fault_enumeration",
        text=("Stop-point enumeration on the real code, decided by a TLA+ P-spec: exhaustive re-execution of 8 request shapes with close/abort enabled at every "
              "prefix (early execution off/on, abort signal configured or not) and seeded generated requests (raising resolvers, failing sources) with a stop "
              "injected at a random step; after each stop the environment completes every gate the execution did not cancel, and the quiescent observation "
              "(awaiting callers, pending tasks, per-source started/exhausted/aclose counters, hook calls and tracked work at hook time) is evaluated by TLC "
              "against Settled.tla (L1-L4). StreamQueue.tla, an I-spec of stream_item_queue.py, is model checked for order, cleanup-once, no lost failure and "
              "termination (it reproduces findings F15/F11 when the repaired rules are switched off)."
              " Stops are injected at quiescent points and as armed stops (the consumer stops in reaction to a resolver or source resuming, in that loop step or the next), which reaches the window between a task's completion and its callbacks."),
        design_ref="DESIGN.md 5/C06",
        note="Environment fairness assumed (uncancelled gates eventually complete); abort with nobody awaiting judged after the next pull; tracked work = executor's future sets; three genuine defects are listed in known_findings.json (F7, F14, F18).",
        technique="exhaustive stop-point re-execution on a deterministic loop + TLC evaluation of observations against Settled.tla + TLC model checking of StreamQueue.tla",
    ),
    "C07": dict(
        category="model_checking",
        text=("Subscribe.tla (pull-driven pipeline of map_async_iterable over the source) is model checked for one-to-one order, no loss, ending with the "
              "source, failure only after all earlier responses and single close. Code->spec: seeded subscription operations x event sequences (0..4 "
              "events, arbitrary payload shapes) x creation failures x ending/raising sources x gated emission and gated per-event resolvers are run through "
              "subscribe() on a deterministic loop under every interleaving of emission, resolver completion and pulls (within a budget); TLC evaluates "
              "S1-S6 on each run, comparing every response with Execute.tla applied to that event. Execute.tla carries the rule of the executor without "
              "incremental delivery (DeferMet: an object position whose selection meets an active @defer is a field error, at every list item alike) for "
              "documents with @defer(if: $var); a subscription whose only root field is excluded by @skip/@include counts as a creation failure."),
        design_ref="DESIGN.md 5/C07",
        note="Trusted: Execute.tla, gqlmini renderers; one action per quiescent point; a single outstanding pull.",
        technique="TLC model checking of Subscribe.tla + TLC evaluation of recorded subscription runs against SubscribeV.tla/Execute.tla",
    ),
    "C08": dict(
        category="model_checking",
        text=("String fidelity is decided by the specification's lexer (Lexical.tla, evaluated by TLC through StringV.tla): every raw block-string body and "
              "every programmatic value over a 12-symbol block alphabet (LF CR SP TAB quote backslash a FF NEL LS VT FS) up to length 4 (quick) / 5 (thorough) "
              "and every value over a 14-symbol quoted alphabet up to length 3/4 - the parsed value must be the specification's value, the printed literal must "
              "denote the original value, is_printable_as_block_string(v) must imply Representable(v). Full-grammar documents from a grammar-directed generator "
              "(incl. experimental syntaxes): parsed AST = the generator's expected tree, print->parse identity, print fixed point, the same for trees built from "
              "node classes, and TLC checks that the string tokens of each printed document carry exactly the tree's string values in order. Every ordered pair "
              "(thorough: also triples) of 53 definition forms (each kind of definition with and without its optional parts) is printed as one document: adjacent "
              "definitions must not run into each other (F34)."),
        design_ref="DESIGN.md 5/C08",
        note="Round-trip and fixed-point laws are metamorphic (evaluated on the real parser/printer); the TLA+ lexer is the independent oracle for string values. A programmatic block node whose value no block string denotes is outside the statement.",
        technique="bounded-exhaustive enumeration of string values + TLC evaluation of printed literals/documents against Lexical.tla",
    ),
    "C11": dict(
        category="model_checking",
        text=("VisitContract.tla defines the documented contract of visit() recursively (RefVisit: call log with phase/node/key/path/ancestor count/parent, "
              "outcome, result tree; skip/break/remove/replace on enter and leave; lists as levels of their own). Real ASTs of 45 node kinds (kitchen sinks + "
              "grammar-generated documents incl. experimental syntaxes) are visited by scripted visitors with 0..3 decision points (incl. the root, list "
              "items, leave); the tree handed to TLC comes from reflection over dataclass fields ordered by source position, not from the library's key "
              "table. TLC compares log, outcome and result tree; Python checks the input tree is untouched, idle visitors get the identical object back and "
              "non-editing visitors run in parallel see the call sequence they see alone."),
        design_ref="DESIGN.md 5/C11",
        note="After BREAK only the call log is compared; node identity across rebuilt nodes is (kind, loc); the I-spec VisitLoop of the design is not built (the P-spec decides).",
        technique="TLC evaluation of recorded visit() runs against the recursive contract VisitContract.tla",
    ),
    "C12": dict(
        category="model_checking",
        text=("ValidateLaws.tla states V1 (the errors of a rule set are the bag union of the errors of each rule alone, also for random subsets and "
              "permutations), V2 (messages independent of reprinting, stripping, inserted ignored material and added descriptions), V3 (determinism, document "
              "and schema untouched) and V4 (with limit n: the first min(n, total) errors followed by one abort notice iff total > n). Valid, mutated and "
              "grammar-random documents are validated with every specified rule alone, the full set, subsets, permutations, four layout variants and six "
              "limits; TLC evaluates V1-V4 on the recorded error lists."),
        design_ref="DESIGN.md 5/C12",
        note="V1-V4 are metamorphic laws of the real validate(); TLC's role is the evaluation of the laws on recorded lists (thin use of the technique, see DESIGN 7); the I-spec ValidateDriver is not built.",
        technique="TLC evaluation of recorded validation results against the laws of ValidateLaws.tla",
    ),
    "C13": dict(
        category="model_checking",
        text=("Soundness of validation w.r.t. the specification's executor: valid documents and abstract mutants of them (10 mutation kinds: literal kind, "
              "variable type, nullable variable at non-null position, unknown field/argument, dropped required argument, impossible fragment, leaf with / "
              "composite without selection, null literal) are executed only if the REAL validate() accepts them, with variables the real coercion accepts, "
              "over data that conforms to the schema and over arbitrary data. TLC evaluates Execute.tla on every recorded execution: the response equals the "
              "specification's; with conforming data every error is an argument-coercion failure without a resolver call (the run-time check the "
              "specification defers); with arbitrary data every error position is one the specification attributes to the data."),
        design_ref="DESIGN.md 5/C13",
        note="Trusted: Execute.tla and the conforming-data generator; the transcription of the validation rules themselves (Rules.tla of the design) is not built - the real validate() is the filter and Execute.tla the judge.",
        technique="TLC evaluation of executions of validate()-accepted documents against Execute.tla with a conforming-data clause",
    ),
    "C14": dict(
        category="model_checking",
        text=("Differential against a transcription of the specification's algorithm: FieldMerge.tla implements FieldsInSetCanMerge / SameResponseShape "
              "un-optimised (every selection set, fragments expanded under a visited set, coinductive guard on cyclic spreads, meta fields typed as the "
              "specification types them). Seeded documents (4 000 quick / 40 000 thorough; colliding aliases, nested and mutually recursive fragments, the same "
              "fragment under exclusive and non-exclusive parents, arguments incl. variables and input objects in both key orders, aliased __typename) are "
              "validated by the real rule under a watchdog; TLC evaluates SpecConflict on each: reported >= 1 error iff the specification finds a conflict."),
        design_ref="DESIGN.md 5/C14",
        note="Trusted: FieldMerge.tla as the reading of section 5.3.2; argument equality after normalisation; the memoising I-spec MergeOpt of the design is not built.",
        technique="TLC evaluation of a transcribed specification algorithm (FieldMerge.tla) on recorded documents vs the real rule",
    ),
    "C15": dict(
        category="model_checking",
        text=("Coerce.tla states Conforms(S, value, type): what an accepted input value must look like (32-bit Int, finite Float, known enum value, exactly the "
              "declared input-object fields with defaults applied and required fields present, exactly one non-null field for OneOf, no null under non-null). "
              "For generated input types (list/non-null nesting over built-in scalars, enums, input objects with defaults, recursive and OneOf input objects) "
              "and type-directed values, broken variants and an edge palette - as runtime values, as literals and through variables - TLC checks every accepted "
              "result against Conforms; the agreement laws (coerce accepts iff validate reports nothing, for values and literals; value->literal->coerce is the "
              "identity; ValuesOfCorrectTypeRule accepts iff literal coercion succeeds; variables yield errors xor values; nothing raises) are evaluated on the "
              "real functions."
              " A7: a literal containing a variable coerces, with the variable provided, like the literal with its value, and, with it absent, like the literal without that field; A3 also goes through the printed text of the literal."),
        design_ref="DESIGN.md 5/C15",
        note="Agreement laws A1/A1'/A3/A4/A5/A6 are metamorphic relations between library functions; Conforms (A2, A5) is decided by TLC. Custom scalars are outside the statement and excluded.",
        technique="TLC evaluation of accepted coercion results against Conforms (Coerce.tla) + agreement laws between coercion, validation, literal conversion and the validation rule",
    ),
    "C16": dict(
        category="model_checking",
        text=("Scalars.tla states the value domains of the built-in scalars and enums over value descriptors (exact rationals as base-2^15 limbs so that 2^31, "
              "2^53+1 and 10^400 are exact): InDomain, Faithful (an integer input is never changed silently, floats pass unchanged, Boolean/String/ID keep their "
              "meaning) and SameMeaning for the emitted value fed back to the type's input coercion. A boundary palette plus seeded numbers/strings (400 quick / "
              "5 000 thorough values incl. bytes, containers, Decimal/Fraction, subclasses, custom __str__) x 5 scalars x 6 generated enums goes through "
              "coerce_output_value directly and through leaf positions of executed responses; TLC evaluates every record."),
        design_ref="DESIGN.md 5/C16",
        note="Descriptors are computed by harness code with exact Fraction arithmetic; an integer spelled as text and rounded by Float is reported as MODEL-DRIFT only.",
        technique="TLC evaluation of serialisation records against the domain predicates of Scalars.tla",
    ),
    "C17": dict(
        category="model_checking",
        text=("Abstract schemas from a seeded generator (all type kinds, interface hierarchies with covariant fields, recursive and OneOf input objects, "
              "custom directives, non-default root names, adversarial descriptions/deprecation reasons, defaults of every input type) are rendered twice - SDL "
              "written by the harness and programmatic GraphQL* constructors. For each real schema: print_schema -> build_schema succeeds and validates, the "
              "reprint is identical, find_schema_changes is empty, and TLC (SchemaV.tla) checks that the projections of the rendered and of the rebuilt schema "
              "equal the abstract schema (order included) and that the abstract schema satisfies SchemaValid.tla."),
        design_ref="DESIGN.md 5/C17",
        note="The projection is a structural walk over public attributes; print/rebuild laws are metamorphic; TLC decides model-state equality and validity of the generated schema.",
        technique="abstract-schema generator with two independent renderers + TLC evaluation of projections against the model (SchemaV.tla/SchemaValid.tla)",
    ),
    "C09": dict(
        category="model_checking",
        text=("TLC checks the grammar theorems (spans disjoint/ordered with ignored gaps, filler insertion at every boundary invisible, Strip laws) on every string "
              "of length <=4 (quick) / <=5 (thorough) over three 16-symbol alphabets and emits the specification's token stream; the real lexer's kinds, spans and "
              "values are compared for each, and real strip_ignored_characters outputs are validated by TLC. For generated/mutated full-grammar documents TLC "
              "re-lexes the recorded source and compares tokens, token count and strip output; AST invariance under filler insertion at every boundary, strip "
              "idempotence, rejection preservation and the token-limit equivalence are checked on the real parser."),
        design_ref="DESIGN.md 5/C09",
        note="Trusted: Lexical.tla as the reading of the lexical grammar; class representatives stand for character classes; error offsets are drift only.",
        technique="TLC model checking of lexical-grammar theorems + enumeration (spec->code) + TLC evaluation of recorded tokens/strip outputs (code->spec)",
    ),
    "C10": dict(
        category="model_checking",
        text=("Bounded-exhaustive: TLC enumerates every string over a 10-symbol location alphabet (LF, CR, FF, NEL, LS, ...) "
              "up to length 5 (quick) / 6 (thorough) and computes Loc for every offset from spec/Location.tla; the real "
              "get_location, token line/column, syntax-error locations, formatted dicts, str(error) and print_source_location "
              "excerpts (4 location offsets) are compared for every (string, offset). Larger erroneous documents are recorded "
              "and their reported locations are evaluated by TLC (LocationV.tla)."
              " V records also carry the (start, line, column) of every lexer token of larger texts and block-string snippets, and errors that blame nodes of two sources (concat_ast, schema + extension) are judged per node source."),
        design_ref="DESIGN.md 5/C10",
        note="Trusted: Location.tla's reading of the line-terminator definition; harness rendering of symbols; offsets strictly inside CR LF are excluded.",
        technique="TLC enumeration of Location.tla (spec->code) + TLC evaluation of recorded error locations (code->spec)",
    ),
}

NOT_YET = "check not built yet in this round; no claim is made"

ALL = [f"C{n:02d}" for n in range(1, 21)]


def build():
    checks = []
    for pid in ALL:
        if pid not in CLAIMED:
            continue
        c = CLAIMED[pid]
        checks.append({
            "property_id": pid,
            "quick_cmd": f"./check {pid} --tier quick",
            "thorough_cmd": f"./check {pid} --tier thorough",
            "evidence_file": f"/verif/evidence/{pid}.json",
            "replay_cmd_template": f"./check {pid} --replay {{path}}",
            "engine": "tlc+harness",
            "level_claimed": {"category": c["category"], "text": c["text"], "design_ref": c["design_ref"]},
            "level_note": c["note"],
            "technique": c["technique"],
        })
    na = [{"property_id": pid, "reason": NOT_APPLICABLE.get(pid, NOT_YET)} for pid in ALL if pid not in CLAIMED]
    m = {
        "version": 1,
        "setup_cmd": "./setup.sh",
        "hooks": {
            "guard": "GRAPHQL_CORE_VERIF",
            "enable": "environment variable GRAPHQL_CORE_VERIF=1 set by ./check before Python starts (pure-Python editable install; no build)",
            "baseline_off_cmd": "cd /repo && env -u GRAPHQL_CORE_VERIF /venv/bin/python -m pytest -ra -q -p no:cacheprovider --timeout=900 --continue-on-collection-errors",
            "source_commits": HOOK_COMMITS,
            "add_only": True,
        },
        "engines": [
            {"name": "tlc+harness", "path": "/verif/check", "serves_properties": sorted(CLAIMED),
             "kind_free_text": "TLA+ specifications in /verif/spec checked/evaluated with TLC 1.8; Python harness binds them to the real code (spec->code enumeration, code->spec record/trace validation)"},
        ],
        "checks": checks,
        "not_applicable": na,
        "notes": "See DESIGN.md. Exit codes: 0 held, 1 VIOLATION, 2 machinery failure. known_findings.json lists genuine defects (fixed ones suppress nothing).",
    }
    return m


NOT_APPLICABLE: dict[str, str] = {}

if __name__ == "__main__":
    m = build()
    (VERIF / "MANIFEST.json").write_text(json.dumps(m, indent=1) + "\n")
    try:
        import jsonschema
        jsonschema.validate(m, json.load(open("/root/.vp/MANIFEST.schema.json")))
        print("MANIFEST valid;", len(m["checks"]), "checks")
    except ImportError:
        print("jsonschema not available; written unvalidated")
