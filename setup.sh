#!/bin/sh
# Offline setup: nothing to build (pure Python, editable install of /repo in /venv).
# Parse every specification with SANY and import every harness module as a smoke test.
cd "$(dirname "$0")" || exit 2
mkdir -p evidence replay .run
fail=0
for f in spec/*.tla; do
  out=$(cd spec && java -cp /opt/veriftools/tla/tla2tools.jar:/opt/veriftools/tla/CommunityModules-deps.jar tla2sany.SANY "$(basename "$f")" 2>&1)
  if echo "$out" | grep -q "\*\*\* Errors\|Parse Error\|Fatal error\|Could not find\|Lexical error\|was not found"; then echo "SANY FAILED: $f"; echo "$out" | tail -5; fail=1; fi
done
PYTHONPATH=/verif:/repo/src /venv/bin/python -c "
import importlib, pkgutil, harness
for m in pkgutil.iter_modules(harness.__path__):
    importlib.import_module('harness.' + m.name)
print('harness modules import ok')
" || fail=1
exit $fail
