#!/bin/bash
# usage: tools/seedtest.sh <seed-name> <dir-with-patch.diff-demo-NOTES> <check-id> [more check ids]
# Confirms a seeded change and runs the given checks against it WITHOUT touching /repo: the patch is applied to a
# scratch worktree of /repo's HEAD and the checks import graphql from there (VERIF_REPO_SRC); evidence and replay
# files of these runs go to a scratch directory (VERIF_OUT).
name=$1; src=$2; shift 2
out=/verif/seeded/$name; mkdir -p $out
[ "$src" != "$out" ] && { cp $src/patch.diff $out/patch.diff; cp $src/demo_*.py $out/ 2>/dev/null; cp $src/NOTES.md $out/NOTES.md 2>/dev/null; }
demo=$(ls $out/demo_*.py | head -1)
wt=/tmp/seedwt_$name; scratch=/tmp/seedout_$name
git -C /repo worktree remove --force $wt 2>/dev/null; rm -rf $scratch; mkdir -p $scratch
git -C /repo worktree add -q $wt HEAD || exit 2
echo "== demo on unchanged sources"; PYTHONPATH=$wt/src timeout 300 /venv/bin/python $demo >/dev/null 2>&1; d0=$?; echo "exit $d0"
git -C $wt apply $out/patch.diff || { echo "PATCH DOES NOT APPLY"; git -C /repo worktree remove --force $wt; exit 2; }
echo "== demo with patch"; PYTHONPATH=$wt/src timeout 300 /venv/bin/python $demo >/dev/null 2>&1; d1=$?; echo "exit $d1"
echo "== repository suite with patch"; (cd $wt && PYTHONPATH=$wt/src timeout 900 /venv/bin/python -m pytest -q -p no:cacheprovider --timeout=60 -q 2>&1 | tail -1)
res=""
for c in "$@"; do
  echo "== check $c with patch"
  (cd /verif && VERIF_REPO_SRC=$wt/src VERIF_OUT=$scratch ./check $c --tier quick > $scratch/check_$c.out 2>/dev/null); rc=$?
  grep "VIOLATION\|KNOWN-FINDING\|MODEL-DRIFT" $scratch/check_$c.out | cut -c1-260 | head -8
  echo "exit $rc"; res="$res $c=$rc"
done
git -C /repo worktree remove --force $wt; rm -rf $scratch
echo "SUMMARY $name demo_without=$d0 demo_with=$d1 checks:$res"
