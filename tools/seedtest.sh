#!/bin/bash
# usage: tools/seedtest.sh <seed-name> <worktree> <check-id> [more check ids]
# Confirms a seeded change (suite passes with it, demo passes without / fails with it), stores it under
# /verif/seeded/<seed-name>/ and runs the given checks against /repo with the patch applied (then undoes it).
name=$1; wt=$2; shift 2
out=/verif/seeded/$name; mkdir -p $out
cp $wt/patch.diff $out/patch.diff; cp $wt/demo_*.py $out/ 2>/dev/null; cp $wt/NOTES.md $out/NOTES.md 2>/dev/null
demo=$(ls $out/demo_*.py | head -1)
cd /repo || exit 2
git diff --quiet || { echo "/repo not clean"; exit 2; }
echo "== demo on unchanged /repo"; PYTHONPATH=/repo/src timeout 300 /venv/bin/python $demo >/dev/null 2>&1; d0=$?; echo "exit $d0"
git apply $out/patch.diff || { echo "PATCH DOES NOT APPLY"; exit 2; }
echo "== demo with patch"; PYTHONPATH=/repo/src timeout 300 /venv/bin/python $demo >/dev/null 2>&1; d1=$?; echo "exit $d1"
echo "== repo suite with patch"; timeout 900 /venv/bin/python -m pytest -q -p no:cacheprovider --timeout=60 -q 2>&1 | tail -1 | tee $out/suite.txt
res=""
for c in "$@"; do
  echo "== check $c with patch"
  (cd /verif && ./check $c --tier quick > $out/check_$c.out 2>/dev/null); rc=$?
  grep "VIOLATION\|KNOWN-FINDING\|MODEL-DRIFT" $out/check_$c.out | cut -c1-260 | head -8
  echo "exit $rc"; res="$res $c=$rc"
done
git -C /repo checkout -- . ; git -C /repo status --short | head -2
echo "SUMMARY $name demo_without=$d0 demo_with=$d1 checks:$res"
